#!/venv/bin/python
"""Single entry point:  run.py <Cxx> [--tier quick|thorough] [--replay FILE]

exit 0  property held on everything explored (KNOWN-FINDING lines possible)
exit 1  VIOLATION property=<id> replay=<path>   (one line per root cause)
exit 2  harness error / inconclusive -- never a violation
"""
import argparse
import importlib
import json
import os
import sys
import time
import traceback

sys.path.insert(0, os.path.dirname(os.path.abspath(__file__)))
from dv import common  # noqa: E402


def main():
    ap = argparse.ArgumentParser()
    ap.add_argument("prop")
    ap.add_argument("--tier", default=os.environ.get("VERIF_TIER", "quick"),
                    choices=["quick", "thorough"])
    ap.add_argument("--replay")
    ap.add_argument("--scale", type=float, default=1.0,
                    help="multiply case budgets (development aid)")
    args = ap.parse_args()
    common.ensure_env()
    os.chdir(common.VERIF_DIR)
    pid = args.prop.upper()
    try:
        common.import_repo()
        mod = importlib.import_module(f"checks.{pid.lower()}")
        if args.replay:
            with open(args.replay) as f:
                doc = json.load(f)
            rc = mod.replay(doc)
        else:
            rc = mod.run(args.tier, args.scale)
    except common.HarnessError as e:
        print(f"[{pid}] HARNESS ERROR: {e}")
        traceback.print_exc()
        rc = 2
    except SystemExit:
        raise
    except BaseException:
        print(f"[{pid}] HARNESS ERROR (unexpected exception in the machinery)")
        traceback.print_exc()
        rc = 2
    sys.stdout.flush()
    sys.stderr.flush()
    os._exit(rc)


if __name__ == "__main__":
    main()
