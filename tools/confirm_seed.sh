#!/bin/sh
# usage: confirm_seed.sh <dir with patch.diff + demo.py> <property> <name> [check-scale]
# Confirms a seeded change in a fresh scratch worktree of /repo HEAD:
#  tests still pass with it, demo fails with it and passes without it; then runs
#  the property's quick check against the changed tree (VERIF_SRC) and reports.
set -u
SRCDIR=$1; PROP=$2; NAME=$3; SCALE=${4:-1.0}
WT=/tmp/seedwt_$$
git -C /repo worktree add -q --detach $WT HEAD || exit 3
cleanup() { git -C /repo worktree remove --force $WT >/dev/null 2>&1; rm -rf $WT; }
trap cleanup EXIT
cd $WT
echo "== demo WITHOUT change"
PYTHONPATH=$WT/src timeout 300 /venv/bin/python $SRCDIR/demo.py >/tmp/seed_demo_clean_$$.log 2>&1; RC_CLEAN=$?
tail -2 /tmp/seed_demo_clean_$$.log; echo "rc=$RC_CLEAN"
git apply $SRCDIR/patch.diff || { echo "PATCH DOES NOT APPLY to HEAD"; exit 4; }
echo "== test suite WITH change"
PYTHONPATH=$WT/src /venv/bin/python -m pytest -q -p no:cacheprovider tests 2>&1 | tail -1
echo "== demo WITH change"
PYTHONPATH=$WT/src timeout 300 /venv/bin/python $SRCDIR/demo.py >/tmp/seed_demo_mut_$$.log 2>&1; RC_MUT=$?
tail -2 /tmp/seed_demo_mut_$$.log; echo "rc=$RC_MUT"
echo "== check $PROP quick against the changed tree"
cd /verif
VERIF_SRC=$WT/src /venv/bin/python -B run.py $PROP --tier quick --scale $SCALE > /tmp/seed_check_$$.log 2>&1; RC_CHECK=$?
grep -E "VIOLATION|signature=|HARNESS|^\[" /tmp/seed_check_$$.log | cut -c1-260 | head -12
echo "check rc=$RC_CHECK"
echo "SUMMARY name=$NAME prop=$PROP demo_clean_rc=$RC_CLEAN demo_mut_rc=$RC_MUT check_rc=$RC_CHECK"
rm -f /tmp/seed_demo_clean_$$.log /tmp/seed_demo_mut_$$.log /tmp/seed_check_$$.log
