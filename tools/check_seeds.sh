#!/bin/sh
# Re-applies every kept seeded change to a scratch worktree of /repo HEAD and runs the quick
# check of its property against it (or the check named in <seed>/check_with when the change
# belongs to a sibling property's domain).  Prints one line per seed.  usage: check_seeds.sh [scale] [glob]
S=${1:-0.5}
G=${2:-C*}
cd "$(dirname "$0")/.."
for d in seeded/$G; do
  n=$(basename $d); p=$(echo $n | cut -c1-3)
  [ -f $d/check_with ] && p=$(cat $d/check_with)
  [ -f $d/neutralised ] && { echo "$n NEUTRALISED ($(cat $d/neutralised))"; continue; }
  WT=/tmp/seedchk_$$_$n
  git -C /repo worktree add -q --detach $WT HEAD || { echo "$n worktree-failed"; continue; }
  if git -C $WT apply $PWD/$d/patch.diff 2>/dev/null; then
    VERIF_SRC=$WT/src /venv/bin/python -B run.py $p --tier quick --scale $S > /tmp/seedchk_$n.log 2>&1; rc=$?
    echo "$n [$p] check_rc=$rc $(grep -c VIOLATION /tmp/seedchk_$n.log) violations"
  else
    echo "$n PATCH-DOES-NOT-APPLY"
  fi
  git -C /repo worktree remove --force $WT >/dev/null 2>&1; rm -rf $WT
done
