#!/usr/bin/env python3
"""Regenerates MANIFEST.json from the table below (keeps it schema-valid)."""
import json, os, sys
HERE = os.path.dirname(os.path.dirname(os.path.abspath(__file__)))
sys.path.insert(0, HERE)
from tools.manifest_table import CHECKS, NOT_APPLICABLE, ENGINES, NOTES

def main():
    checks = []
    for c in CHECKS:
        pid = c["id"]
        checks.append({
            "property_id": pid,
            "quick_cmd": f"/venv/bin/python -B run.py {pid} --tier quick",
            "thorough_cmd": f"/venv/bin/python -B run.py {pid} --tier thorough",
            "evidence_file": f"/verif/evidence/{pid}.json",
            "replay_cmd_template": f"/venv/bin/python -B run.py {pid} --replay {{path}}",
            "engine": c["engine"],
            "level_claimed": {"category": c["category"], "text": c["text"],
                              "design_ref": c["design_ref"]},
            "level_note": c["note"],
            "technique": c["technique"],
        })
    m = {
        "version": 1,
        "setup_cmd": "sh /verif/setup.sh",
        "hooks": {
            "guard": "MENSONEN_DIAMETER_VERIF",
            "enable": "no source hooks exist: checks import /repo/src directly (run.py exports MENSONEN_DIAMETER_VERIF=1 for uniformity); the simulation kernel enters through sys.modules at import time",
            "baseline_off_cmd": "cd /repo && env -u MENSONEN_DIAMETER_VERIF /venv/bin/python -m pytest -ra -q -p no:cacheprovider --timeout=900 --continue-on-collection-errors",
            "source_commits": [],
            "add_only": True,
        },
        "engines": ENGINES,
        "checks": checks,
        "notes": NOTES,
        "not_applicable": NOT_APPLICABLE,
    }
    with open(os.path.join(HERE, "MANIFEST.json"), "w") as f:
        json.dump(m, f, indent=1)
    print("MANIFEST.json written:", len(checks), "checks,", len(NOT_APPLICABLE), "not_applicable")

if __name__ == "__main__":
    main()
