#!/usr/bin/env python3
"""Prints the prompt given to a fresh sub-agent for one property (only the
property text + a scratch worktree; nothing from /verif)."""
import json, sys
pid = sys.argv[1]
variant = sys.argv[2] if len(sys.argv) > 2 else ""
wt = sys.argv[3] if len(sys.argv) > 3 else f"/tmp/wt/{pid}"
out = sys.argv[4] if len(sys.argv) > 4 else f"/tmp/wt_out/{pid}"
for line in open("/verif/properties.jsonl"):
    p = json.loads(line)
    if p["id"] == pid:
        break
else:
    raise SystemExit("no such property")
mech = "; ".join(f"{m['name']} ({m['where']})" for m in p["anchors"]["mechanism"])
print(f"""You are helping to evaluate a verification effort for the open-source project mensonen/diameter (a pure-Python Diameter / RFC 6733 stack: AVP and message codec in src/diameter/message, a peer node handling CER/CEA, DWR/DWA, DPR over TCP/SCTP in src/diameter/node).

You have your own scratch git worktree of the repository at {wt} . Work ONLY inside that directory (and write your deliverables to {out}/ ). Do NOT read or touch /verif or /repo, and do not look for any verification machinery: your work must be independent of it.

Here is a semantic property the library is supposed to satisfy:

  Title: {p['title']}
  Statement: {p['statement']}
  Quantified over: {p['quantifier']['text']}
  Code that is meant to make it hold: {mech}
  Files: {', '.join(p['anchors']['files'])}

YOUR TASK: produce ONE realistic change (a plausible bug a developer could introduce during a refactoring, optimisation or feature change) to the library source under {wt}/src/diameter that BREAKS this property, while
  (a) the package still imports/compiles, and
  (b) the existing test suite still passes exactly as before:  cd {wt} && PYTHONPATH={wt}/src /venv/bin/python -m pytest -q -p no:cacheprovider tests   (on the unchanged tree the result is "1 failed, 157 passed": tests/test_avp.py::test_create_time_type fails already before your change and must be ignored; the 157 others must still pass).

The change must NOT be one that ordinary use would expose at once. It should need something specific to manifest: a particular interleaving of threads, a fault or disconnect at a particular point, a multi-step sequence of operations, an unusual (but valid) input or boundary value, a particular configuration, or two cooperating code sites that each look fine alone. Keep the diff small (typically 1-15 changed lines), natural-looking, without comments that give it away. {variant}

Also write a DEMONSTRATION: a self-contained python script (or pytest file) {out}/demo.py that exercises the library (run as: PYTHONPATH=<tree>/src /venv/bin/python {out}/demo.py) and exits 0 / prints PASS on the unchanged tree but exits non-zero / prints FAIL with your change applied, showing that the property is really violated (not just an internal detail changed). The demo may use real sockets on 127.0.0.1, threads, monkeypatching of time etc., but must be deterministic enough to be trusted and finish within ~60 s. Use /venv/bin/python (3.12). No network access or package installation is available.

Verify all of it yourself: run the test suite with your change; run demo.py with the change (must fail) and with the change reverted (must pass), then re-apply it. IMPORTANT: do NOT use `git stash` (the stash is shared between worktrees and other people use it concurrently); revert and re-apply with `git -C {wt} diff > {out}/patch.diff`, `git -C {wt} apply -R {out}/patch.diff` and `git -C {wt} apply {out}/patch.diff`.

Deliverables, all in {out}/ :
  - patch.diff : output of `git -C {wt} diff` (the change to the library only; do not commit)
  - demo.py    : the demonstration
  - notes.md   : 5-15 lines: what the change is, why it breaks the property, exactly what is needed for it to manifest (inputs / sequence / interleaving / configuration), and the commands you ran with their observed results.
Leave the change applied in the worktree (uncommitted). In your final answer, summarise the same in a few lines.""")
