#!/bin/sh
# usage: take_seed.sh <tag e.g. r2C01> <property> <name> [scale]
T=$1; P=$2; N=$3; S=${4:-0.5}
mkdir -p /verif/seeded/_pending/$T
cp /tmp/wt_out/$T/patch.diff /tmp/wt_out/$T/demo.py /tmp/wt_out/$T/notes.md /verif/seeded/_pending/$T/ 2>/dev/null
git -C /repo worktree remove --force /tmp/wt/$T 2>/dev/null
/verif/tools/confirm_seed.sh /verif/seeded/_pending/$T $P $N $S 2>&1 | grep -E "signature|SUMMARY|APPLY|passed|rc=" | cut -c1-260
