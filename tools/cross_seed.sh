#!/bin/sh
# usage: cross_seed.sh <dir with patch.diff> <property> [scale]  -- runs one quick check against the changed tree only
D=$1; P=$2; S=${3:-0.5}
WT=/tmp/crosswt_$$
git -C /repo worktree add -q --detach $WT HEAD || exit 3
git -C $WT apply $D/patch.diff || { echo "PATCH DOES NOT APPLY"; git -C /repo worktree remove --force $WT; exit 4; }
cd /verif
VERIF_SRC=$WT/src /venv/bin/python -B run.py $P --tier quick --scale $S 2>&1 | grep -E "signature=|HARNESS|^\[" | cut -c1-260 | head -8
git -C /repo worktree remove --force $WT >/dev/null 2>&1; rm -rf $WT
