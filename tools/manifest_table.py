ENGINES = [
    {"name": "E1-refcodec", "path": "dv/refcodec.py", "serves_properties": ["C01", "C02", "C03", "C04", "C05", "C07", "C20"],
     "kind_free_text": "independent RFC 6733 reference encoder/parser/tree search used as oracle"},
    {"name": "E2-strategies", "path": "dv/strategies.py", "serves_properties": ["C01", "C02", "C03", "C04", "C20"],
     "kind_free_text": "Hypothesis strategies: boundary-biased typed values, dictionary-driven AVP trees, messages"},
]
NOTES = ("All checks: /venv/bin/python -B run.py <id> --tier quick|thorough ; exit 0 held / 1 VIOLATION / 2 harness error. "
         "Seeds derive from VERIF_SEED. Known findings live in KNOWN_FINDINGS.txt.")

CHECKS = [
    {"id": "C01", "engine": "E1-refcodec", "category": "exploration", "design_ref": "DESIGN.md section 3 C01",
     "technique": "property-based testing (Hypothesis) + exhaustive dictionary enumeration against an independent reference codec (differential + round-trip)",
     "text": "Every one of the dictionary entries x 9 (M,P) choices x a boundary value pool is enumerated exhaustively, and 10^5 (quick) / 10^6 (thorough) Hypothesis-generated (entry, flags, value) cases, grouped trees to depth 6, run-time registered definitions for all 13 type classes, unknown codes and well-formed wire AVPs are checked in four directions (encode == reference bytes, decode == reference value/class/flags, re-encode == input, out-of-domain rejected). Exploration, not proof: it samples the value domain.",
     "note": "Trusted: dv/refcodec.py (written from RFC 6733/RFC 4330), Python's int.to_bytes/utf-8/ipaddress, TZ=UTC. The dictionary is read from the repo as data."},
    {"id": "C02", "engine": "E1-refcodec", "category": "exploration", "design_ref": "DESIGN.md section 3 C02",
     "technique": "property-based testing (Hypothesis) + exhaustive command-code x flag-octet enumeration against an independent reference parser and reference tree search",
     "text": "All registered command codes (+2 registered at run time, + unknown codes) x all 256 flag octets are enumerated; Hypothesis messages of 0..40 dictionary AVPs (nesting <= 6, repeats) are decoded typed and generically and compared field by field and AVP by AVP (recursively) with the reference parse, re-encoded (generic) and constructed/encoded through the public classes; find_avps is compared by object position with a reference search over generated path sequences (hits, vendor-distinguished misses).",
     "note": "Trusted: dv/refcodec.py parser and find(); class expectation derived from the registry by naming/subclass relation; typed classes regenerate their AVP list so sequence identity is demanded of generic decoding only."},
    {"id": "C20", "engine": "E1-refcodec", "category": "exploration", "design_ref": "DESIGN.md section 3 C20",
     "technique": "exhaustive enumeration of the class closure x 256 flag octets + Hypothesis header values, oracle = header algebra of the statement and name/subclass pairing; helper answers parsed by the reference parser",
     "text": "Every class in the Message subclass closure and unknown codes x all 256 flag octets x flags set before/after construction x boundary ids: answer class, copied header fields, flags == request & P, request unmodified. Every typed request class x Session-Id/Proxy-Info presence through Application.generate_answer and Node._generate_answer: Origin-Host/Realm, copied Session-Id/Proxy-Info verified on the encoded bytes.",
     "note": "Exhaustive over classes x flag octets; ids/app-ids are boundary tuples plus random samples. Helper clause on typed requests only (documented precondition)."},
]
CHECKS.append(
    {"id": "C03", "engine": "E1-refcodec", "category": "exploration", "design_ref": "DESIGN.md section 3 C03",
     "technique": "exhaustive static cross-check of every attribute definition against the dictionary + property-based testing (Hypothesis) of attribute subsets with an independent reference parser as encode oracle and structural decode/round-trip oracles",
     "text": "All typed message classes and grouped containers are discovered structurally; every avp_def entry is cross-checked (dictionary entry exists, container => Grouped, no duplicate attribute or AVP); every usable definition is individually set, encoded and decoded at least once per run (enforced: 100% or exit 2), plus random subsets / all / none, list attributes with 0..3 elements, containers nested to depth 4 and undeclared extra AVPs. Encoded bytes are parsed by the reference parser and compared per definition (count, flags, payload, order within a key); decode must restore every value; encode-decode-encode == encode. Untyped commands: attribute exposure by normalised name, repeats as lists, groups as nested objects.",
     "note": "Trusted: dv/refcodec.py; list-ness = list on a fresh instance or list[...] annotation; values valid for the dictionary type; AVP order across different definitions not demanded."})
CHECKS.append(
    {"id": "C04", "engine": "E1-refcodec", "category": "exploration", "design_ref": "DESIGN.md section 3 C04 + section 2 E6",
     "technique": "fuzzing: Hypothesis-generated and structure-aware mutated inputs (quick) plus coverage-guided atheris/libFuzzer campaign (thorough), oracle inside the target: exception allow-list, deterministic linear work bound, cursor monotonicity",
     "text": "Random bytes, every prefix of valid messages, bit flips, every length field (message/AVP/nested, from the reference parser's span map) x 9 boundary values, and per-type malformed payloads of every length 0..20 bare, under untyped commands, nested, and under every typed command class that declares such an AVP. Each input goes through Message.from_bytes (typed and plain) and Avp.from_bytes, then every reachable AVP's value getter and str(); only packer.Error / AvpDecodeError may be raised, work counters stay under a linear bound (non-termination becomes a deterministic verdict), the unpacker cursor advances and never passes the buffer. Thorough adds two atheris campaigns (empty and seeded corpus) with the same oracle in the target.",
     "note": "Trusted: the allow-list reading of 'library decode errors' (packer.Error subclasses, AvpDecodeError); harness-installed counting wrappers; nesting walked to depth 16."})
ENGINES.append({"name": "E3-simkernel", "path": "dv/simkernel.py", "serves_properties": ["C05", "C06", "C07", "C08", "C09", "C10", "C11", "C12", "C13", "C14", "C15", "C16", "C17", "C18", "C19"],
                "kind_free_text": "deterministic simulation: the real diameter.node code on baton-passing simulated threads, virtual clock, virtual non-blocking sockets/pipes, loop-iteration progress guard (sys.monitoring)"})
CHECKS.append(
    {"id": "C05", "engine": "E3-simkernel", "category": "exploration", "design_ref": "DESIGN.md section 4 C05",
     "technique": "property-based testing over streams x read boundaries with exhaustive 1-/2-cut enumeration on short streams; the real reader thread runs in a deterministic simulation; oracle = sent-vs-delivered sequence and a deterministic progress measure",
     "text": "A real PeerConnection is fed streams of 1..6 messages in every 1-cut and (strided in quick, complete in thorough) 2-cut chunking of short streams, random k-cuts, byte-at-a-time and 2048-byte reads of longer ones; undecodable frames and frames with corrupted length fields (0, 1..19, shorter, longer) are inserted at every position. Valid frames must be delivered exactly once in order; corrupted lengths must leave the reader waiting for input or the connection closed - a spinning reader is detected deterministically by a loop-iteration budget, a dead reader by the kernel.",
     "note": "Trusted: dv/simkernel.py (queue/thread/time shims), the frames built by dv/refcodec.py. The connection is put in READY state directly."})
ENGINES.append({"name": "E5-sched", "path": "dv/sched.py", "serves_properties": ["C15", "C16"],
                "kind_free_text": "stateless bounded-exhaustive schedule explorer over the real code: preemption at line/call events (sys.monitoring) of the relevant functions + choices at blocking points; random schedules beyond the bound"})
CHECKS.append(
    {"id": "C16", "engine": "E5-sched", "category": "exploration", "design_ref": "DESIGN.md section 6 C16",
     "technique": "systematic schedule enumeration (every interleaving with <= 3 deviations, line/call granularity, on the real generator code in the simulation kernel) + random schedules + sequential property-based checks with an independent successor/format model",
     "text": "For every configuration (generator kind, start value incl. MAX-2..MAX, 2..3 threads, 1..3 draws each) all schedules with at most 3 preemptions / non-default picks are executed and the multiset of handed-out ids must be exactly the successors of the start value (distinct, non-zero, wrapping to 1); random schedules go to 6 deviations. Sequential runs of 10^5 draws across the wrap, end-to-end initial value vs start time over boundary and random timestamps (also through Node()), session-id format against an independent formatter.",
     "note": "Exhaustive only within the deviation bound and the listed configurations; preemption granularity is source line / Python-level call, not bytecode."})
ENGINES.append({"name": "E4-nodeworld", "path": "dv/world.py", "serves_properties": ["C06", "C07", "C08", "C09", "C10", "C11", "C12", "C13", "C14", "C15", "C17", "C18", "C19"],
                "kind_free_text": "a real Node inside the simulation kernel, harness-played peers, transcript parsed by the reference parser, monitors (answer matching, table invariants, dead threads), JSON event scripts with ddmin shrinking"})
CHECKS.append(
    {"id": "C06", "engine": "E4-nodeworld", "category": "exploration", "design_ref": "DESIGN.md section 5 C06",
     "technique": "model-based testing: bounded-exhaustive enumeration of event sequences plus Hypothesis-generated deeper histories against a reference model of the handshake, on the real node in a deterministic simulation with a virtual clock",
     "text": "All symbol sequences up to depth 3 (quick) / 4 (thorough) over 15 inbound / 13 outbound event kinds on 2 base configurations, and random histories to depth 12 over 4 configurations (0..2 applications, 1..3 peers, node and per-peer cer/cea timeouts, wakeup 1..6 s). The model predicts per step the frames the node must emit (CEA content, result code), application callbacks (none before success), readiness, Peer.connection, Node.route_request outcome, socket closure and the safety/promptness window of the CER/CEA timeout.",
     "note": "Trusted: the virtual socket/clock model (dv/simkernel.py), the reference parser. One CER per connection; timer reference = last bytes received; connects complete at dial time."})
CHECKS.append(
    {"id": "C07", "engine": "E4-nodeworld", "category": "exploration", "design_ref": "DESIGN.md section 5 C07",
     "technique": "property-based testing over event histories (enumerated to depth 2/3, Hypothesis beyond) with a transcript invariant as oracle: every answer frame written to a virtual socket must match exactly one earlier unanswered request read from it",
     "text": "Histories of 24 event kinds (good and defective requests and answers, stray CEA/DWA/DPA, node-originated requests, DWR/DPR, clock advances) on 1..3 inbound/outbound connections before and after the handshake, with basic and threading applications and randomised scheduling; the monitor is a pure function of the frames the reference parser extracts from the sockets.",
     "note": "Trusted: virtual socket transcript, reference frame parser; hop-by-hop ids unique per connection by construction."})
CHECKS.append(
    {"id": "C08", "engine": "E4-nodeworld", "category": "exploration", "design_ref": "DESIGN.md section 5 C08",
     "technique": "model-based testing: exhaustive enumeration of (typed request class x removed required-AVP subset) plus Hypothesis over routing configurations, against a reference routing/validation model evaluated on the real node in simulation",
     "text": "All 32 typed application request classes x every subset of their required scalar attributes removed (1581 cases) are sent to a running node; Hypothesis crosses class x removed subset x application id x realm x sender x 3 application layouts (incl. the same id on different peers) x handler outcome x basic/threading x interleaved DWR/DWA. The model computes the set of acceptable dispositions from the configuration; delivery must be exactly once to exactly the matching application, error answers carry the specified code, 5005 answers a Failed-AVP listing exactly the missing AVPs where the answer class provides one, base-protocol messages never reach an application.",
     "note": "Trusted: virtual transport, reference parser, the library encoder for building typed requests (C01-C03). Validation switch left at its default (on)."})
CHECKS.append(
    {"id": "C17", "engine": "E4-nodeworld", "category": "exploration", "design_ref": "DESIGN.md section 5 C17",
     "technique": "stateful property-based testing (Hypothesis-generated histories) against a reference model of the per-origin retransmission window, on the real node in simulation",
     "text": "Histories of up to 12 requests from 1..2 origin hosts on 1..2 connections, T flag 0/1, end-to-end ids from a pool of 3, answered inline or held and answered later, DWRs in between, window sizes 1..4, basic and threading applications. The model keeps per origin a bounded FIFO of the end-to-end ids of the answers seen on the wire and predicts for every request 'rejected 5012, not delivered' or 'delivered'.",
     "note": "Trusted: virtual transport and transcript; every transmitted answer (CEA, DWA, rejections) counts towards an origin's window."})
CHECKS.append(
    {"id": "C11", "engine": "E4-nodeworld", "category": "exploration", "design_ref": "DESIGN.md section 5 C11",
     "technique": "model-based testing over timed histories under a virtual clock: Hypothesis-generated and systematically enumerated timings against a reference watchdog model (safety windows + bounded promptness)",
     "text": "Timed histories (advance, traffic, DWR, DWA; up to 40 events, horizons past 10x the largest timeout) on inbound and outbound ready connections over idle/dwa timeouts 1..60 s at node and peer level (incl. unset) and wakeup 1..10 s, plus a systematic grid of (idle, dwa, wakeup) in 1..3 x every DWA delay. The model checks: no DWR while int(now)-int(last bytes) <= idle, a DWR by +wakeup+1, exactly one DWR per episode, WAITING_DWA/READY marking, DWA restores ready, close with DWA_TIMEOUT inside its window, DWR answered 2001 with the node's Origin-State-Id in both sub-states.",
     "note": "Trusted: virtual clock and sockets; integer-second steps; bytes arriving after a timer has already expired may find the action taken (both orders accepted)."})

_TODO = "check not built yet in this session (planned, see DESIGN.md); not claimed until its machinery is committed"
NOT_APPLICABLE = [{"property_id": f"C{n:02d}", "reason": _TODO} for n in range(2, 21) if f"C{n:02d}" not in {c["id"] for c in CHECKS}]
