#!/bin/sh
# usage: run_all.sh [tier] [seed]   -- runs every check, prints one summary line each
TIER=${1:-quick}; SEED=${2:-1}
cd "$(dirname "$0")/.."
for n in ${CHECKS:-01 02 03 04 05 06 07 08 09 10 11 12 13 14 15 16 17 18 19 20}; do
  s=$(date +%s)
  VERIF_SEED=$SEED /venv/bin/python -B run.py C$n --tier $TIER > /tmp/runall_${TIER}_${SEED}_C$n.log 2>&1; rc=$?
  e=$(date +%s)
  echo "C$n rc=$rc $((e-s))s $(grep -E '^\[C' /tmp/runall_${TIER}_${SEED}_C$n.log | tail -1 | cut -c1-140) $(grep -c VIOLATION /tmp/runall_${TIER}_${SEED}_C$n.log) viol"
done
