#!/bin/sh
# usage: keep_seed.sh <srcdir> <property> <name> "<needs>" "<ran>" "<caught_by>"
set -e
D=/verif/seeded/$3
mkdir -p $D
cp $1/patch.diff $D/patch.diff
cp $1/demo.py $D/demo.py
[ -f $1/notes.md ] && cp $1/notes.md $D/notes.md
python3 - "$2" "$3" "$4" "$5" "$6" <<'PY'
import json, sys
prop, name, needs, ran, caught = sys.argv[1:6]
json.dump({"property": prop, "name": name, "needs_to_manifest": needs, "what_i_ran": ran,
           "caught_by": caught, "origin": "independent sub-agent given only the property text and a scratch worktree"},
          open(f"/verif/seeded/{name}/meta.json", "w"), indent=1)
PY
echo kept $D
