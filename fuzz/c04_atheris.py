#!/venv/bin/python
"""E6 -- coverage-guided fuzzing of the message/AVP decoders with the C04
oracle inside the target.  usage: c04_atheris.py <workdir> [libFuzzer args] [corpus dirs]

A finding does not stop the campaign: each new signature's input is saved as
<workdir>/finding-<n> (the replay unit) and fuzzing continues.
"""
import hashlib
import os
import sys

HERE = os.path.dirname(os.path.dirname(os.path.abspath(__file__)))
sys.path.insert(0, HERE)
from dv import common  # noqa: E402

os.environ.setdefault("TZ", "UTC")
work = sys.argv[1]
import atheris  # noqa: E402

src = os.path.abspath(common.SRC)
sys.path.insert(0, src)
with atheris.instrument_imports(include=["diameter"]):
    common.import_repo()
    import diameter.message  # noqa: F401
    import diameter.message.commands  # noqa: F401

from checks import c04  # noqa: E402
from dv.evidence import Recorder  # noqa: E402

c04.install_counters()
seen = set()
count = [0]


def TestOneInput(data: bytes):
    rec = Recorder("C04")
    c04.check_bytes(bytes(data), rec, "atheris")
    count[0] += 1
    for sig in rec.violations:
        if sig not in seen:
            seen.add(sig)
            name = "finding-" + hashlib.sha1(sig.encode()).hexdigest()[:10]
            with open(os.path.join(work, name), "wb") as f:
                f.write(bytes(data))
            sys.stderr.write(f"FINDING {sig} saved as {name}\n")


atheris.Setup([sys.argv[0]] + sys.argv[2:], TestOneInput)
atheris.Fuzz()
