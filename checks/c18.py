"""C18 -- graceful shutdown: DPR to ready peers, drain, refuse newcomers, stop all threads.

Nodes with 0..3 connections in every state (connecting, awaiting CER/CEA,
ready, awaiting DWA, disconnecting) x peers that answer the DPR promptly, late,
never, or just close x newcomers and reconnect deadlines inside the shutdown
window x force x wait timeouts, under the virtual clock.
"""
from __future__ import annotations

import time

from hypothesis import strategies as st

from dv import hyp, simkernel as sk, world as W
from dv.common import derive_seed
from dv.evidence import Recorder, finish
from checks.nodecommon import Result, record, generic_replay

PID = "C18"
RULE = ("cases = up to 3 connections, each (state in {connecting, awaiting-CER, awaiting-CEA, ready, "
        "waiting-DWA, disconnecting}, reaction to the DPR in {prompt DPA, DPA after k s, never, close, "
        "reset}) x newcomer offsets inside the window (with / without CER) x a persistent peer whose "
        "reconnect deadline falls inside the window x force in {False, True} x wait timeout 2..9 s x "
        "wakeup 1..3 s x basic/threading application with a blocked sender. Non-trivial: >= 1 "
        "connection not ready at stop, or a peer not answering the DPR promptly, or a newcomer; distinct "
        "by case.")
ASSUME = ["workers poll with timeouts <= 5 s: all node/connection/application workers must have ended 6 virtual seconds after stop() returned",
          "stop() must return by wait_timeout + wakeup + 12 s (joins and polls of the implementation are bounded by that)",
          "a connection closes at the instant of its DPA (output is flushed in the same instant on a writable socket)",
          "timeout closures happen between wait_timeout and wait_timeout + wakeup + 2 s after stop()"]

STATES = ["connecting", "awaiting-cer", "awaiting-cea", "ready", "ready", "waiting-dwa", "disconnecting"]
REACTIONS = ["prompt", "late", "never", "close", "reset", "dpa-pending-output", "dwa-then-dpa", "dwr+dpa-one-segment", "dpa-5012"]


def world_cfg(case):
    peers = []
    for i, c in enumerate(case["conns"]):
        out = c["state"] in ("connecting", "awaiting-cea")
        peers.append({"name": f"peer{i + 1}.example", "ip": [f"10.1.1.{i + 1}"], "persistent": out,
                      "reconnect_wait": 1000, "timers": {"idle": 2} if c["state"] == "waiting-dwa" or c.get("late_handshake") is not None else {}})
    # one more persistent peer whose reconnect deadline falls inside the shutdown window
    peers.append({"name": "peer9.example", "ip": ["10.1.1.9"], "persistent": bool(case.get("reconnect_inside")),
                  "reconnect_wait": case.get("reconnect_wait", 3)})
    if case.get("dead_dials"):
        # a persistent peer that cannot be reached at all: every dial fails at once (no route to the host), from start() on
        peers.append({"name": "peer8.example", "ip": ["10.1.1.8"], "persistent": True, "reconnect_wait": case.get("reconnect_wait", 3)})
    app = {"app_id": 4, "auth": True, "peers": list(range(len(peers))), "kind": case.get("app_kind", "basic"),
           "handler": "answer"}
    return {"peers": peers, "apps": [app], "default_dial": "inprogress",
            "node_timers": {"idle": 5000, "dwa": 5000, "cer": 5000, "cea": 5000, "wakeup": case.get("wakeup", 2)},
            "sched_seed": case.get("seed", 0), "yield_all": case.get("yield_all", False),
            "extra_listen": case.get("extra_listen", 0),
            "dial_plan": {"10.1.1.8": [["sync-error", 101]] * 400} if case.get("dead_dials") else {},
            "policy": "random" if case.get("seed", 0) % 2 else "fifo"}


def evaluate(case) -> Result:
    res = Result()
    w = W.NodeWorld(world_cfg(case))
    try:
        pm = w.mods["peer"]
        w.start()
        conns = []
        n9 = len(case["conns"])
        # the reconnect-inside peer: connected outbound, then lost shortly before stop
        c9 = None
        for c in w.conns:
            if c.remote.addr and c.remote.addr[0] == "10.1.1.9":
                c9 = c
        if c9 is not None:
            w.connect_result(c9, True)
            w.answer_cer(c9, 2001, auth=(4,), host="peer9.example")
        for i, cs in enumerate(case["conns"]):
            host, ip = f"peer{i + 1}.example", f"10.1.1.{i + 1}"
            stt = cs["state"]
            if stt in ("connecting", "awaiting-cea"):
                c = [x for x in w.conns if x.remote.addr and x.remote.addr[0] == ip][0]
                c.host = host
                if stt == "awaiting-cea":
                    w.connect_result(c, True)
            elif stt == "awaiting-cer":
                c = w.accept(ip)
                c.host = None
            else:
                if cs.get("same_host") and i > 0 and case["conns"][0]["state"] in ("ready", "waiting-dwa", "disconnecting"):
                    # a second transport connection of the first peer (accepted and served like the first)
                    host = "peer1.example"
                    res.classes.append("second-connection-of-a-peer")
                c = w.handshake_in(host, auth=[4], ip=ip, hbh=0x100 + i)
            conns.append(c)
        if any(cs["state"] == "waiting-dwa" for cs in case["conns"]):
            w.advance(2 + case.get("wakeup", 2) + 1)
        for i, cs in enumerate(case["conns"]):
            if cs["state"] == "disconnecting":
                w.feed_msg(conns[i], {"k": "DPR", "host": f"peer{i + 1}.example", "hbh": 0x180 + i, "e2e": 0x180 + i})
        if c9 is not None:
            w.peer_close(c9)
        sender_box = None
        if case.get("blocked_sender") and any(cs["state"] in ("ready", "waiting-dwa") for cs in case["conns"]):
            from diameter.message.commands import CreditControlRequest
            msg = CreditControlRequest()
            msg.session_id, msg.origin_host, msg.origin_realm = "n;1", W.NODE_HOST.encode(), W.NODE_REALM.encode()
            msg.destination_realm, msg.service_context_id = W.NODE_REALM.encode(), "x"
            msg.cc_request_type, msg.cc_request_number = 1, 0
            sender_box = w.app_call(lambda: w.apps[0].send_request(msg, timeout=500), name="sender")["box"]
        if case.get("pre_gap"):
            w.advance(case["pre_gap"])
        # snapshot at the stop instant
        ready_at_stop = []
        for i, c in enumerate(conns):
            nc = w.node_conn_for(c)
            ready_at_stop.append(nc is not None and nc.state in pm.PEER_READY_STATES)
        out_mark = [len(c.refresh()) for c in conns]
        t_stop = w.k.now
        calls_mark = len(w.net.connect_calls)
        force, wait, wake = case.get("force", False), case.get("wait", 4), case.get("wakeup", 2)
        box = w.stop(force=force, wait_timeout=wait)
        t_dpa = {}
        newcomers = []
        returned_at = None
        horizon = wait + wake + 14
        pending_reactions = {i: cs.get("reaction", "never") for i, cs in enumerate(case["conns"])}
        must_flush = {}            # conn index -> hop-by-hop ids of watchdog requests the peer sent ahead of its DPA
        for sec in range(horizon + 1):
            now_off = w.k.now - t_stop
            # peers react to a DPR
            batched = []
            for i, c in enumerate(conns):
                if i not in pending_reactions or c.node_closed or c.peer_closed:
                    continue
                dprs = [f for f in c.refresh()[out_mark[i]:] if f.code == W.CMD_DP and f.is_request]
                if not dprs:
                    continue
                react = pending_reactions[i]
                if react == "prompt" or (react == "late" and now_off >= case["conns"][i].get("delay", 2)):
                    # DPAs of several peers arrive in the same instant: fed without running the node in between
                    w.feed_msg(c, {"k": "DPA", "host": c.host or f"peer{i + 1}.example", "hbh": dprs[0].h["hbh"], "e2e": dprs[0].h["e2e"]},
                               run=False)
                    batched.append(i)
                    t_dpa[i] = w.k.now
                    del pending_reactions[i]
                elif react == "dpa-5012":
                    # the peer answers the DPR with an error result: a DPA all the same, the connection is closed
                    w.feed_msg(c, {"k": "DPA", "host": c.host or f"peer{i + 1}.example", "hbh": dprs[0].h["hbh"], "e2e": dprs[0].h["e2e"],
                                   "result": 5012 if i % 2 == 0 else 3004})
                    t_dpa[i] = w.k.now
                    del pending_reactions[i]
                elif react == "dpa-pending-output":
                    # the peer stops reading, sends a DWR (its DWA stays in the node's write buffer) and the
                    # DPA; output is flushed one second later: the connection must then be closed
                    host_i = c.host or f"peer{i + 1}.example"
                    c.remote.sock.tx_blocked = True
                    must_flush.setdefault(i, []).append(0xdd00 + i)
                    w.feed_msg(c, {"k": "DWR", "host": host_i, "hbh": 0xdd00 + i, "e2e": 0xdd00 + i})
                    w.feed_msg(c, {"k": "DPA", "host": host_i, "hbh": dprs[0].h["hbh"], "e2e": dprs[0].h["e2e"]})
                    w.advance(1)
                    c.remote.sock.tx_blocked = False
                    w.run()
                    t_dpa[i] = w.k.now
                    del pending_reactions[i]
                elif react == "dwr+dpa-one-segment":
                    # the peer's own watchdog request and its DPA arrive in one read: the DWA is pending output
                    # (queued, not yet encoded) when the DPA is handled, and must go out before the close
                    host_i = c.host or f"peer{i + 1}.example"
                    must_flush.setdefault(i, []).append(0xdf00 + i)
                    w.feed(c, W.build_msg({"k": "DWR", "host": host_i, "hbh": 0xdf00 + i, "e2e": 0xdf00 + i}) +
                           W.build_msg({"k": "DPA", "host": host_i, "hbh": dprs[0].h["hbh"], "e2e": dprs[0].h["e2e"]}))
                    t_dpa[i] = w.k.now
                    del pending_reactions[i]
                elif react == "dwa-then-dpa":
                    # an in-order peer: it first answers the node's outstanding watchdog request (if any, else a
                    # stray DWA), then the DPR
                    host_i = c.host or f"peer{i + 1}.example"
                    dwrs = [f for f in c.out if f.code == W.CMD_DW and f.is_request]
                    ids = {"hbh": dwrs[-1].h["hbh"], "e2e": dwrs[-1].h["e2e"]} if dwrs else {"hbh": 0xde00 + i, "e2e": 0xde00 + i}
                    w.feed_msg(c, dict(ids, k="DWA", host=host_i))
                    w.feed_msg(c, {"k": "DPA", "host": host_i, "hbh": dprs[0].h["hbh"], "e2e": dprs[0].h["e2e"]})
                    t_dpa[i] = w.k.now
                    del pending_reactions[i]
                elif react == "close":
                    w.peer_close(c)
                    t_dpa[i] = w.k.now
                    del pending_reactions[i]
                elif react == "reset":
                    w.peer_reset(c)
                    t_dpa[i] = w.k.now
                    del pending_reactions[i]
            if batched:
                w.run()
                if len(batched) > 1:
                    res.classes.append("simultaneous-dpas")
            for i, cs in enumerate(case["conns"]):
                # a handshake that was under way when stop() was called completes inside the shutdown window;
                # the peer is silent afterwards (its idle timeout is 2 s)
                if cs.get("late_handshake") == sec and box["done"] is False and not conns[i].node_closed:
                    if cs["state"] == "awaiting-cea":
                        w.answer_cer(conns[i], 2001, auth=(4,), host=f"peer{i + 1}.example")
                        res.classes.append("handshake-completes-while-stopping")
                    elif cs["state"] == "awaiting-cer":
                        conns[i].host = f"peer{i + 1}.example"
                        w.feed_msg(conns[i], {"k": "CER", "host": conns[i].host, "auth": [4], "hbh": 0x1c0 + i, "e2e": 0x1c0 + i})
                        res.classes.append("handshake-completes-while-stopping")
            for (off, with_cer) in case.get("newcomers", []):
                if off == sec and box["done"] is False:
                    nc_ = w.accept("10.1.1.77")
                    if nc_ is not None:
                        if with_cer:
                            w.feed_msg(nc_, {"k": "CER", "host": "peer1.example", "auth": [4], "hbh": 0x7700 + off, "e2e": 0x7700 + off})
                        newcomers.append((nc_, w.k.now))
            if box["done"] and returned_at is None:
                returned_at = w.k.now
                open_socks = [s for s in w.net.open_sockets()]
                if open_socks:
                    res.v("C18/sockets-open-after-stop", f"stop() returned with open sockets: {open_socks[:4]}")
                if any(not s.closed for s in list(w.node.tcp_sockets) + list(w.node.sctp_sockets)):
                    res.v("C18/listener-open-after-stop", "listening socket not closed")
            if returned_at is not None and w.k.now >= returned_at + 6:
                break
            w.advance(1)
        if box["exc"] is not None:
            res.v(f"C18/stop-raised/{type(box['exc']).__name__}", repr(box["exc"]))
        if returned_at is None:
            res.v("C18/stop-hangs", f"stop(wait_timeout={wait}, force={force}) has not returned {horizon}s later")
        else:
            limit = (0 if force else wait) + wake + 12
            if returned_at - t_stop > limit:
                res.v("C18/stop-late", f"stop() returned after {returned_at - t_stop:g}s (wait_timeout {wait}, wakeup {wake})")
        # DPR set
        for i, c in enumerate(conns):
            new = c.refresh()[out_mark[i]:]
            dprs = [f for f in new if f.code == W.CMD_DP and f.is_request]
            st_name = case["conns"][i]["state"]
            if force:
                if dprs:
                    res.v("C18/force/dpr-sent", f"forced stop sent a DPR to conn {i}")
            elif ready_at_stop[i]:
                if wait == 0 and not dprs:
                    res.classes.append("dpr-overtaken-by-expired-timeout")      # queued, but the timeout had run out already
                elif len(dprs) != 1:
                    res.v("C18/dpr/missing" if not dprs else "C18/dpr/repeated", f"conn {i} ({st_name}) got {len(dprs)} DPRs")
                else:
                    cause = dprs[0].avp(W.DISC_CAUSE)
                    if cause is None or int.from_bytes(cause.data, "big") != 0:
                        res.v("C18/dpr/cause", f"Disconnect-Cause {cause.data.hex() if cause else None}, expected REBOOTING (0)")
            elif dprs:
                res.v("C18/dpr/to-non-ready", f"conn {i} in state {st_name} was sent a DPR")
            dwrs = [f for f in new if f.code == W.CMD_DW and f.is_request]
            if dwrs:
                res.v("C18/dwr-while-stopping", f"conn {i}: DWR at +{dwrs[0].t - t_stop:g}s")
            if not force and c.node_closed and (c.remote.closed_at or 0) - t_stop < wait:
                # (a connection closed by the wait timeout is closed whatever is pending)
                for h_ in must_flush.get(i, []):
                    if not [f for f in new if f.code == W.CMD_DW and not f.is_request and f.h["hbh"] == h_]:
                        res.v("C18/pending-output-not-flushed", f"conn {i}: the DWA for the peer's DWR {h_:#x}, pending when the DPA arrived, "
                              f"was never written; the connection was closed at +{(c.remote.closed_at or 0) - t_stop:g}s")
            # closure times
            if not c.node_closed:
                res.v("C18/connection-not-closed", f"conn {i} ({st_name}) still open at the end")
                continue
            tc = c.remote.closed_at - t_stop
            if force:
                continue
            if i in t_dpa:
                if c.remote.closed_at < t_dpa[i] and tc < wait:
                    res.v("C18/closed-before-dpa", f"conn {i} closed at +{tc:g}s, its DPA/close came at +{t_dpa[i] - t_stop:g}s")
                elif c.remote.closed_at > t_dpa[i] + wake + 1:
                    res.v("C18/not-closed-after-dpa", f"conn {i}: DPA at +{t_dpa[i] - t_stop:g}s, closed only at +{tc:g}s")
            else:
                if tc < wait and not case["conns"][i]["state"] == "disconnecting":
                    res.v("C18/closed-early", f"conn {i} ({st_name}) closed at +{tc:g}s without DPA; wait timeout {wait}s")
                if tc > wait + wake + 2 + 1:
                    res.v("C18/closed-late", f"conn {i} closed at +{tc:g}s; wait timeout {wait}s, wakeup {wake}s")
        for (nc_, t_acc) in newcomers:
            fr = nc_.refresh()
            if fr:
                res.v("C18/newcomer-served", f"a connection arriving during shutdown was sent {[f.brief() for f in fr]}")
            if not nc_.node_closed:
                res.v("C18/newcomer-not-closed", "a connection arriving during shutdown stays open")
        dials = [x for x in w.net.connect_calls[calls_mark:] if x[0] > t_stop or True]
        if dials:
            res.v("C18/dial-while-stopping", f"connect() {dials[0][1]} at +{dials[0][0] - t_stop:g}s")
        if returned_at is not None:
            live = [t.name for t in w.k.live_threads() if t.role != "harness"]
            if live:
                kinds = sorted({n.split("(")[-1].rstrip(")") for n in live})
                res.v("C18/threads-alive/" + "+".join(kinds)[:60], f"{len(live)} worker thread(s) alive 6s after stop() returned: {live[:6]}")
            if sender_box is not None and not sender_box["done"]:
                res.v("C18/sender-still-blocked", "a caller blocked in send_request was not released by stop()")
        for sig, d in W.monitor_threads(w):
            res.v(f"C18/thread-died/{sig}", d)
        res.nontrivial = (any(not r for r in ready_at_stop) or bool(newcomers) or
                          any(cs.get("reaction") != "prompt" for cs in case["conns"]))
        res.classes += [f"listeners:{1 + case.get('extra_listen', 0)}", f"nconns:{len(conns)}", f"force:{force}", f"wait:{'zero' if wait == 0 else 'positive'}", f"newcomers:{min(len(newcomers), 2)}",
                        f"app:{case.get('app_kind', 'basic')}", f"reconnect-inside:{bool(case.get('reconnect_inside'))}",
                        f"unreachable-persistent-peer:{bool(case.get('dead_dials'))}"]
        for cs in case["conns"]:
            res.classes += [f"state:{cs['state']}", f"reaction:{cs.get('reaction')}"]
        res.sample = {"case": case, "returned_after": None if returned_at is None else returned_at - t_stop,
                      "transcript": w.summary()[:3]}
        return res
    finally:
        w.close()


def install_points():
    from dv import sched, simkernel as sk
    mods = sk.load_node()
    N = mods["node"].Node
    return sched.install({N.stop: None})


def stop_vs_loss(decisions, nconns=3, loser=1):
    """stop() is called while one of the ready peers goes away at the same moment: the I/O thread removes that
    connection while stop() walks the connection table.  One schedule; returns (trace, problems)."""
    from dv import sched
    w = W.NodeWorld({"peers": [{"name": f"peer{i + 1}.example", "ip": [f"10.1.1.{i + 1}"]} for i in range(nconns)],
                     "apps": [{"app_id": 4, "auth": True, "peers": list(range(nconns)), "handler": "answer"}],
                     "node_timers": {"idle": 5000, "dwa": 5000, "cer": 50, "cea": 50, "wakeup": 1}})
    try:
        w.start()
        conns = [w.handshake_in(f"peer{i + 1}.example", auth=[4], ip=f"10.1.1.{i + 1}", hbh=0x100 + i) for i in range(nconns)]
        ex = sched.Explorer(decisions)
        sched.attach(w.k, ex)
        conns[loser].peer_closed = True

        def lose_and_stop():
            conns[loser].remote.close()          # the peer's FIN reaches the node's socket as stop() begins
            w.node.stop(wait_timeout=3, force=False)
        ex.armed = True
        box = w.stop_box = w.k.spawn(lose_and_stop, name="stopper")
        w.k.run()
        ex.armed = False
        problems = []
        for sec in range(8):
            for i, c in enumerate(conns):
                if c.node_closed or c.peer_closed:
                    continue
                dprs = [f for f in c.refresh() if f.code == W.CMD_DP and f.is_request]
                if dprs:
                    w.feed_msg(c, {"k": "DPA", "host": f"peer{i + 1}.example", "hbh": dprs[0].h["hbh"], "e2e": dprs[0].h["e2e"]})
            if box["done"]:
                break
            w.advance(1)
        if box["exc"] is not None:
            problems.append((f"stop-raised/{type(box['exc']).__name__}", repr(box["exc"])))
        elif not box["done"]:
            problems.append(("stop-did-not-return", "stop() still running 8 s after the call (wait timeout 3 s)"))
        w.advance(3)
        left = [s_ for s_ in w.net.open_sockets()]
        if left:
            problems.append(("sockets-open-after-stop", f"{left[:4]}"))
        for sig, d in W.monitor_threads(w):
            problems.append((f"thread-died/{sig}", d))
        return ex.trace, problems
    finally:
        w.close()


def stop_vs_garbage(decisions):
    """stop() is called in the instant in which a ready connection receives a header that cannot be a Diameter
    message (length field 5): the read thread closes the connection while stop() sends it a DPR.  One schedule: the
    connection is closed and stop() returns well before its wait timeout (nobody is left to answer the DPR)."""
    from dv import sched, refcodec as R_
    w = W.NodeWorld({"peers": [{"name": "peer1.example", "ip": ["10.1.1.1"]}],
                     "apps": [{"app_id": 4, "auth": True, "peers": [0], "handler": "answer"}],
                     "node_timers": {"idle": 5000, "dwa": 5000, "cer": 50, "cea": 50, "wakeup": 1}})
    try:
        w.start()
        c = w.handshake_in("peer1.example", auth=[4], ip="10.1.1.1", hbh=0x100)
        ex = sched.Explorer(decisions)
        sched.attach(w.k, ex)
        garbage = bytes([1, 0, 0, 5]) + bytes(16)
        t0 = w.k.now

        def garbage_and_stop():
            c.remote.send(garbage)
            w.node.stop(wait_timeout=8, force=False)
        ex.armed = True
        box = w.k.spawn(garbage_and_stop, name="stopper")
        w.k.run()
        ex.armed = False
        for sec in range(12):
            if box["done"]:
                break
            w.advance(1)
        problems = []
        if box["exc"] is not None:
            problems.append((f"stop-raised/{type(box['exc']).__name__}", repr(box["exc"])))
        elif not box["done"]:
            problems.append(("stop-did-not-return", "stop() still running 12 s after the call (wait timeout 8 s)"))
        elif w.k.now - t0 >= 8:
            problems.append(("stop-waited-for-a-closed-connection", f"stop() returned after {w.k.now - t0:g}s: the connection that its read thread had "
                             f"closed on garbage was held until the wait timeout (8 s)"))
        w.advance(3)
        left = [s_ for s_ in w.net.open_sockets()]
        if left:
            problems.append(("sockets-open-after-stop", f"{left[:4]}"))
        for sig, d in W.monitor_threads(w):
            problems.append((f"thread-died/{sig}", d))
        return ex.trace, problems
    finally:
        w.close()


def dpa_vs_writer(decisions):
    """During stop() the peer sends a watchdog request of its own and its DPA in one segment: the DWA is queued, the
    DPA puts the connection into CLOSING, and the write thread moves the DWA from the queue into the buffer while the
    connection thread decides whether anything is left to write.  One schedule: the DWA is on the wire before the close."""
    from dv import sched
    w = W.NodeWorld({"peers": [{"name": "peer1.example", "ip": ["10.1.1.1"]}],
                     "apps": [{"app_id": 4, "auth": True, "peers": [0], "handler": "answer"}],
                     "node_timers": {"idle": 5000, "dwa": 5000, "cer": 50, "cea": 50, "wakeup": 1}})
    try:
        w.start()
        c = w.handshake_in("peer1.example", auth=[4], ip="10.1.1.1", hbh=0x100)
        box = w.stop(force=False, wait_timeout=6)
        dprs = [f for f in c.refresh() if f.code == W.CMD_DP and f.is_request]
        if not dprs:
            return [], [("setup", "no DPR after stop()")]
        ex = sched.Explorer(decisions)
        sched.attach(w.k, ex)
        w.feed(c, W.build_msg({"k": "DWR", "host": "peer1.example", "hbh": 0xdf00, "e2e": 0xdf00}) +
               W.build_msg({"k": "DPA", "host": "peer1.example", "hbh": dprs[0].h["hbh"], "e2e": dprs[0].h["e2e"]}), run=False)
        ex.armed = True
        w.k.run()
        ex.armed = False
        w.advance(2)
        problems = []
        if not [f for f in c.refresh() if f.code == W.CMD_DW and not f.is_request and f.h["hbh"] == 0xdf00]:
            problems.append(("pending-output-not-flushed", f"the DWA for the peer's DWR was never written; connection closed: {c.node_closed}"))
        if not c.node_closed:
            problems.append(("not-closed-after-dpa", "the connection is still open 2 s after its DPA"))
        for sig, d in W.monitor_threads(w):
            problems.append((f"thread-died/{sig}", d))
        return ex.trace, problems
    finally:
        w.close()


def two_stops(decisions):
    """Two threads call stop() at the same moment (a signal handler and the main program, say).  One schedule:
    exactly one of the calls carries the shutdown out, the other is refused with the documented RuntimeError, and
    the node ends up stopped."""
    from dv import sched
    w = W.NodeWorld({"peers": [{"name": "peer1.example", "ip": ["10.1.1.1"]}],
                     "apps": [{"app_id": 4, "auth": True, "peers": [0], "handler": "answer"}],
                     "node_timers": {"idle": 5000, "dwa": 5000, "cer": 50, "cea": 50, "wakeup": 1}})
    try:
        w.start()
        c = w.handshake_in("peer1.example", auth=[4], ip="10.1.1.1", hbh=0x100)
        ex = sched.Explorer(decisions)
        sched.attach(w.k, ex)
        ex.armed = True
        boxes = [w.k.spawn(lambda: w.node.stop(wait_timeout=3, force=False), name=f"stopper{i}") for i in range(2)]
        w.k.run()
        ex.armed = False
        for sec in range(8):
            dprs = [f for f in c.refresh() if f.code == W.CMD_DP and f.is_request]
            if dprs and not c.node_closed and not getattr(c, "dpa_sent", False):
                c.dpa_sent = True
                w.feed_msg(c, {"k": "DPA", "host": "peer1.example", "hbh": dprs[0].h["hbh"], "e2e": dprs[0].h["e2e"]})
            if all(b["done"] for b in boxes):
                break
            w.advance(1)
        problems = []
        outcomes = sorted("ok" if b["done"] and b["exc"] is None else
                          ("running" if not b["done"] else type(b["exc"]).__name__) for b in boxes)
        if outcomes != ["RuntimeError", "ok"]:
            problems.append(("outcomes", f"the two stop() calls ended {outcomes}: {[repr(b['exc']) for b in boxes]}"))
        dprs = [f for f in c.refresh() if f.code == W.CMD_DP and f.is_request]
        if len(dprs) != 1:
            problems.append(("dpr-count", f"{len(dprs)} DPRs were sent to the ready peer"))
        w.advance(3)
        left = [s_ for s_ in w.net.open_sockets()]
        if left:
            problems.append(("sockets-open-after-stop", f"{left[:4]}"))
        for sig, d in W.monitor_threads(w):
            problems.append((f"thread-died/{sig}", d))
        return ex.trace, problems
    finally:
        w.close()


def stop_vs_watchdog(decisions):
    """stop() is called in the I/O-loop turn in which the idle timer of a ready connection expires.  One schedule:
    no watchdog request is written once stop() has begun (the peer is sent the DPR and nothing after it)."""
    from dv import sched
    w = W.NodeWorld({"peers": [{"name": "peer1.example", "ip": ["10.1.1.1"]}],
                     "apps": [{"app_id": 4, "auth": True, "peers": [0], "handler": "answer"}],
                     "node_timers": {"idle": 2, "dwa": 50, "cer": 50, "cea": 50, "wakeup": 1}})
    try:
        w.start()
        c = w.handshake_in("peer1.example", auth=[4], ip="10.1.1.1", hbh=0x100)
        t0 = w.k.now
        io = [t for t in w.k.threads if "_handle_connections" in t.name][0]
        while io.deadline is not None and int(io.deadline) - int(t0) <= 2:
            w.k.advance(io.deadline - w.k.now)
        if [f for f in c.refresh() if f.is_request and f.code == W.CMD_DW]:
            return [], [("setup", "the DWR went out before the turn under exploration")]
        due = io.deadline
        ex = sched.Explorer(decisions)
        sched.attach(w.k, ex)

        def stopper():
            w.k.block(lambda: False, timeout=50)
            w.node.stop(wait_timeout=3, force=False)
        box = w.k.spawn(stopper, name="stopper")
        w.k.run()
        [t for t in w.k.threads if t.name == "stopper"][0].deadline = due
        ex.armed = True
        w.k.advance(due - w.k.now)
        ex.armed = False
        w.k.run()
        problems = []
        out = c.refresh()
        order = [f.brief()[:3] for f in out if f.is_request and f.code in (W.CMD_DW, W.CMD_DP)]
        if "DPR" in order and "DWR" in order[order.index("DPR"):]:
            problems.append(("dwr-after-dpr", f"requests written to the peer, in order: {order}"))
        for sec in range(8):
            dprs = [f for f in c.refresh() if f.code == W.CMD_DP and f.is_request]
            if dprs and not c.node_closed and not getattr(c, "dpa_sent", False):
                c.dpa_sent = True
                for f in [x for x in c.out if x.is_request and x.code == W.CMD_DW]:
                    w.feed_msg(c, {"k": "DWA", "host": "peer1.example", "hbh": f.h["hbh"], "e2e": f.h["e2e"]})
                w.feed_msg(c, {"k": "DPA", "host": "peer1.example", "hbh": dprs[0].h["hbh"], "e2e": dprs[0].h["e2e"]})
            if box["done"]:
                break
            w.advance(1)
        if box["exc"] is not None:
            problems.append((f"stop-raised/{type(box['exc']).__name__}", repr(box["exc"])))
        elif not box["done"]:
            problems.append(("stop-did-not-return", "stop() still running 8 s after the call"))
        for sig, d in W.monitor_threads(w):
            problems.append((f"thread-died/{sig}", d))
        return ex.trace, problems
    finally:
        w.close()


def schedule_part(rec, shard, nshards, thorough):
    from dv import sched
    from dv.common import fp
    info = install_points()
    if shard == 0:
        rec.extra["preemption_functions"] = info
    for nconns, loser in ((2, 0), (3, 1)):
        holder = {}

        def run_one(dec, nconns=nconns, loser=loser):
            tr, problems = stop_vs_loss(dec, nconns, loser)
            holder["last"] = problems
            return tr
        n = 0
        for dec, trace in sched.enumerate_schedules(run_one, 2 if thorough else 1, shard, nshards):
            case = {"stop_vs_loss": [nconns, loser], "schedule": {str(i): c for i, c in sorted(dec.items())}}
            for kind, detail in holder["last"]:
                rec.violation(f"C18/concurrent-loss/{kind}", case, detail)
            n += 1
            rec.case(fp("sched", nconns, tuple(sorted(dec.items()))) if dec else None,
                     ["schedule-exploration", f"deviations:{len(dec)}"], sample=lambda: dict(case, choice_points=len(trace)))
        rec.extra["stop_vs_loss_schedules"] = rec.extra.get("stop_vs_loss_schedules", 0) + n
    from dv import simkernel as sk
    N = sk.load_node()["node"].Node
    P = sk.load_node()["peer"].PeerConnection
    for name, fn, points, bound in (("stop-vs-garbage", stop_vs_garbage,
                                     {N.stop: r"_stopping|_stop_lock|send_dpr|for conn|PEER_READY_STATES", N.send_dpr: None, P.close: None,
                                      P.work_read_queue: r"self\.close\(\)|only garbage"}, 3 if thorough else 2),
                                    ("dpa-vs-writer", dpa_vs_writer,
                                     {P.work_write_queue: None, P.has_pending_output: None, P.add_out_msg: None,
                                      N._handle_connections: r"has_pending_output|interrupt_read|PEER_CLOSING|remove_out_bytes|\.send\("}, 3 if thorough else 2),
                                    ("two-stops", two_stops, {N.stop: None}, 3 if thorough else 2),
                                    ("stop-vs-watchdog", stop_vs_watchdog,
                                     {N.stop: r"_stopping|_stop_lock|send_dpr|for conn", N._check_timers: None, N.send_dwr: None}, 3 if thorough else 2)):
        sched.clear()
        sched.install(points)
        holder2 = {}

        def run_two(dec, fn=fn):
            tr, problems = fn(dec)
            holder2["last"] = problems
            return tr
        n2 = 0
        for dec, trace in sched.enumerate_schedules(run_two, bound, shard, nshards):
            case = {name: True, "schedule": {str(i): c for i, c in sorted(dec.items())}}
            for kind, detail in holder2["last"]:
                rec.violation(f"C18/{name}/{kind}", case, detail)
            n2 += 1
            rec.case(fp("sched", name, tuple(sorted(dec.items()))) if dec else None,
                     ["schedule-exploration", f"exploration:{name}", f"deviations:{len(dec)}"], sample=lambda: dict(case, choice_points=len(trace)))
        rec.extra[f"{name}_schedules"] = rec.extra.get(f"{name}_schedules", 0) + n2
    sched.clear()


def shard_main(shard, nshards, tier, scale):
    rec = Recorder(PID)
    thorough = tier == "thorough"
    shrunk = set()
    schedule_part(rec, shard, nshards, thorough)
    # grid: one connection, every state x reaction x force
    jobs = []
    for stt in sorted(set(STATES)):
        for react in REACTIONS:
            for force in (False, True):
                for nw in ([], [[1, True]], [[0, False]]):
                    jobs.append({"conns": [{"state": stt, "reaction": react, "delay": 2}], "force": force, "wait": 4,
                                 "wakeup": 2, "newcomers": nw})
    for react in REACTIONS:
        jobs.append({"conns": [{"state": "ready", "reaction": "prompt"}, {"state": "ready", "reaction": react, "same_host": True, "delay": 2}],
                     "force": False, "wait": 5, "wakeup": 2, "newcomers": []})
    for n_ready in (2, 3):
        for seed in range(8):
            for ya in (False, True):
                jobs.append({"conns": [{"state": "ready", "reaction": "prompt"}] * n_ready, "force": False, "wait": 6,
                             "wakeup": 2, "newcomers": [], "seed": seed, "yield_all": ya})
    jobs.append({"conns": [], "force": False, "wait": 3, "wakeup": 2, "newcomers": [[0, True]]})
    jobs.append({"conns": [], "force": True, "wait": 3, "wakeup": 1, "newcomers": []})
    for react in ("never", "late", "prompt"):
        for wait_ in (0, 1):
            jobs.append({"conns": [{"state": "ready", "reaction": react, "delay": 3}], "force": False, "wait": wait_, "wakeup": 1, "newcomers": []})
    for stt in ("awaiting-cea", "awaiting-cer"):
        for k_ in (0, 1, 2):
            jobs.append({"conns": [{"state": stt, "reaction": "never", "late_handshake": k_}, {"state": "ready", "reaction": "never"}],
                         "force": False, "wait": 9, "wakeup": 1, "newcomers": []})
    for extra in (1, 2, 3):
        for force in (False, True):
            jobs.append({"conns": [{"state": "ready", "reaction": "prompt"}], "force": force, "wait": 4, "wakeup": 2,
                         "newcomers": [], "extra_listen": extra})
    if shard == 0:
        rec.extra["grid_jobs"] = len(jobs)
    for case in jobs[shard::nshards]:
        res = evaluate(case)
        res.classes.append("grid")
        record(rec, case, res, evaluate, "conns", shrunk)
    n = int((5000 if thorough else 350) * scale)

    @st.composite
    def cases(draw):
        conns = draw(st.lists(st.fixed_dictionaries({"state": st.sampled_from(STATES), "reaction": st.sampled_from(REACTIONS),
                                                     "delay": st.integers(1, 6), "same_host": st.sampled_from([False, False, True]),
                                                     "late_handshake": st.sampled_from([None, None, 0, 1, 3])}),
                              min_size=0, max_size=3))
        return {"conns": conns, "force": draw(st.sampled_from([False, False, True])), "wait": draw(st.one_of(st.integers(2, 9), st.integers(0, 2))),
                "wakeup": draw(st.integers(1, 3)),
                "newcomers": [list(x) for x in draw(st.lists(st.tuples(st.integers(0, 6), st.booleans()), max_size=2))],
                "reconnect_inside": draw(st.booleans()), "reconnect_wait": draw(st.integers(1, 6)),
                "dead_dials": draw(st.sampled_from([False, False, True])),
                "pre_gap": draw(st.integers(0, 3)), "blocked_sender": draw(st.booleans()),
                "app_kind": draw(st.sampled_from(["basic", "threading"])),
                "seed": draw(st.integers(0, 7)), "yield_all": draw(st.booleans()),
                "extra_listen": draw(st.sampled_from([0, 0, 1, 2, 3]))}

    def body(case):
        res = evaluate(case)
        res.classes.append("random")
        record(rec, case, res, evaluate, "conns", shrunk)
    hyp.run_given(cases(), body, n, derive_seed(PID, "rand", shard), rec=rec)
    return rec.dump()


def run(tier, scale=1.0):
    t0 = time.time()
    rec = Recorder(PID)
    for d in hyp.pool_run(shard_main, (tier, scale)):
        rec.merge(d)
    required = {"wait:zero": 1, "unreachable-persistent-peer:True": 1, "exploration:dpa-vs-writer": 1, "exploration:stop-vs-garbage": 1, "exploration:two-stops": 1, "exploration:stop-vs-watchdog": 1} | {f"state:{s}": 1 for s in set(STATES)} | {f"reaction:{r}": 1 for r in REACTIONS} | \
               {"schedule-exploration": 1, "handshake-completes-while-stopping": 1, "listeners:2": 1, "listeners:4": 1, "simultaneous-dpas": 1, "second-connection-of-a-peer": 1, "force:True": 1, "newcomers:2": 1, "nconns:3": 1, "reconnect-inside:True": 1, "app:threading": 1}
    return finish(rec, tier=tier, level="exploration", rule=RULE, assumptions=ASSUME, t0=t0,
                  required_classes=required)


def replay(doc):
    from dv import sched, simkernel as sk
    case = doc["case"]
    explorations = {"two-stops": (two_stops, "C18/two-stops/"), "stop-vs-watchdog": (stop_vs_watchdog, "C18/stop-vs-watchdog/"),
                    "stop-vs-garbage": (stop_vs_garbage, "C18/stop-vs-garbage/"), "dpa-vs-writer": (dpa_vs_writer, "C18/dpa-vs-writer/")}
    for name, (fn, prefix) in explorations.items():
        if case.get(name):
            N = sk.load_node()["node"].Node
            sched.clear()
            P = sk.load_node()["peer"].PeerConnection
            sched.install({N.stop: None} if name == "two-stops" else
                          {P.work_write_queue: None, P.has_pending_output: None, P.add_out_msg: None,
                           N._handle_connections: r"has_pending_output|interrupt_read|PEER_CLOSING|remove_out_bytes|\.send\("} if name == "dpa-vs-writer" else
                          {N.stop: r"_stopping|_stop_lock|send_dpr|for conn|PEER_READY_STATES", N.send_dpr: None, P.close: None,
                           P.work_read_queue: r"self\.close\(\)|only garbage"} if name == "stop-vs-garbage" else
                          {N.stop: r"_stopping|_stop_lock|send_dpr|for conn", N._check_timers: None, N.send_dwr: None})
            _, problems = fn({int(i): c for i, c in case["schedule"].items()})
            sigs = [prefix + k for k, _ in problems]
            if doc["signature"] in sigs:
                print(f"  replayed: {problems[0][1][:300]}")
                print(f"VIOLATION property={PID} replay=(replay)")
                return 1
            print(f"[{PID}] replay: signature {doc['signature']} does not reproduce (got {sigs})")
            return 0
    if case.get("stop_vs_loss"):
        install_points()
        _, problems = stop_vs_loss({int(i): c for i, c in case["schedule"].items()}, *case["stop_vs_loss"])
        sigs = ["C18/concurrent-loss/" + k for k, _ in problems]
        if doc["signature"] in sigs:
            print(f"  replayed: {problems[0][1][:300]}")
            print(f"VIOLATION property={PID} replay=(replay)")
            return 1
        print(f"[{PID}] replay: signature {doc['signature']} does not reproduce (got {sigs})")
        return 0
    return generic_replay(PID, evaluate, doc)
