"""C13 -- peer/connection tables and application readiness stay consistent.

The invariant (dv.world.monitor_tables) is evaluated at every quiescent point
of (a) a dedicated generator: dial out, accept, CER/CEA of every outcome, a
second connection from an already connected peer, DPR, peer gone, socket error,
timeouts, node-initiated close, with messages arriving immediately before, at
and after timer expiries; and (b) the histories of the other node-level
machines (C06, C07, C09, C10, C11, C12, C17), re-run with this monitor armed.
"""
from __future__ import annotations

import time

from hypothesis import strategies as st

from dv import hyp, world as W
from dv.common import derive_seed
from dv.evidence import Recorder, finish
from checks.nodecommon import Result, record, generic_replay

PID = "C13"
RULE = ("(a) histories of 1..18 events {accept from peer p (also while p is connected), CER known/unknown/"
        "no-common-app on the newest unidentified connection, complete a pending dial ok/fail, CEA "
        "2001/3010, request, DPR, peer close, reset, hard write error, node-initiated close, advance 1 s / to a timer "
        "boundary} on 1..3 peers (persistent or not) and 1..2 applications, timers 2..4 s so that events "
        "fall before, at and after expiries; (b) the generated histories of the C06/C07/C09/C10/C11/C12/"
        "C17 machines. The invariant runs after every step. Non-trivial: >= 1 connection removed while "
        "another connection or peer is live; distinct by script.")
ASSUME = ["each connection carries at most one CER (RFC 6733 5.3)",
          "a connection refused with 5010 does not count as 'a connection of that peer'",
          "a live connection of a peer = identified as that peer, not CLOSED, and self-initiated or accepted with 2001",
          "evaluation at quiescent points only (a connection that closed itself is removed by the I/O loop in the same instant)"]

_collector = {"v": [], "removed_while_live": False, "simultaneous": set()}


def hook(w, label):
    try:
        viol = W.monitor_tables(w)
    except Exception as e:        # the monitor reads live tables; a failure here is a harness problem
        raise
    # peers that have (had) two transport connections at once - the known simultaneous-open hole.
    # Derived from the ordered log of the virtual socket layer (not from the node's tables).
    by_cid = {c.remote.cid: c for c in w.conns}
    live: dict = {}
    overlap_closed: dict = {}
    for (t, kind, cid, data) in w.net.log:
        if kind == "connect":
            ip = data[0]
            name = f"peer{ip.split('.')[-1]}.example"
            live.setdefault(name, set()).add(cid)
        elif kind == "feed" and cid in by_cid and by_cid[cid].remote.direction == "in":
            name = by_cid[cid].host or getattr(by_cid[cid], "host5010", None)
            if name:
                live.setdefault(name, set()).add(cid)
        elif kind == "close" and cid is not None:
            for name, sset in live.items():
                if cid in sset and len(sset) > 1:
                    overlap_closed.setdefault(name, set()).add(cid)
                sset.discard(cid)
        for name, sset in live.items():
            if len(sset) > 1:
                _collector["simultaneous"].add(name)
    # connections that Peer.connection has ever referenced (observed at quiescent points)
    ever = _collector.setdefault("ever_referenced", set())
    for peer in w.node.peers.values():
        if peer.connection is not None:
            ever.add(peer.connection.ident)
    survivor_kind = {}
    for name in _collector["simultaneous"]:
        peer = w.node.peers.get(name)
        if peer is None or peer.connection is not None:
            continue
        surv = [ident for ident, nc in w.node.connections.items() if (nc.node_name or nc.host_identity or "").lower() == name]
        if surv:
            # the known hole leaves a connection unreferenced that was never assigned to the peer
            survivor_kind[name] = "never-referenced-survivor" if not (set(surv) & ever) else "previously-referenced-survivor"
    for sig, detail in viol:
        peer_name = detail.split(":")[0].split(" ")[0].split(".connection")[0]
        tag = ""
        hit = [n for n in _collector["simultaneous"] if n in detail]
        if hit:
            tag = "/after-simultaneous-connections"
            if sig == "live-connection-unreferenced" and hit[0] in survivor_kind:
                # the known hole leaves a connection unreferenced that Peer.connection never pointed at
                tag += "/" + survivor_kind[hit[0]]
        _collector["v"].append((f"C13/{sig}{tag}", f"[{label} @+{w.k.now - W.sk.START_TIME:g}] {detail}"))
    live = [c for c in w.node.connections.values()]
    if live and any(cc.node_closed for cc in w.conns):
        _collector["removed_while_live"] = True


def with_monitor(fn):
    """Run fn() with the table monitor armed; returns (result of fn, violations, removed_while_live)."""
    _collector["v"] = []
    _collector["classes"] = []
    _collector["removed_while_live"] = False
    _collector["simultaneous"] = set()
    _collector["ever_referenced"] = set()
    W.STEP_HOOKS.append(hook)
    try:
        out = fn()
    finally:
        W.STEP_HOOKS.remove(hook)
    return out, list(_collector["v"]), _collector["removed_while_live"]


def world_cfg(case):
    peers = []
    for i, p in enumerate(case["peers"]):
        peers.append({"name": f"peer{i + 1}.example", "ip": [f"10.1.1.{i + 1}"], "persistent": p["persistent"],
                      "reconnect_wait": p.get("wait", 3)})
    apps = [{"app_id": 4, "auth": True, "peers": a, "handler": "answer"} for a in case["apps"]]
    return {"peers": peers, "apps": apps, "default_dial": case.get("dial", "inprogress"),
            "node_timers": {"idle": case.get("idle", 4), "dwa": case.get("dwa", 2), "cer": 3, "cea": 3, "wakeup": case.get("wakeup", 1)},
            "sched_seed": case.get("seed", 0), "yield_all": case.get("yield_all", False)}


def run_dedicated(case):
    w = W.NodeWorld(world_cfg(case))
    try:
        pm = w.mods["peer"]
        w.start()
        npeers = len(case["peers"])
        cer_sent = set()
        other_identity = []
        hbh = 0x300
        for ev in case["events"]:
            kind = ev[0]
            hbh += 1
            if kind == "ACCEPT":
                pi = ev[1] % npeers
                if ev[2] == "fresh" and any(c.host == f"peer{pi + 1}.example" and not c.node_closed for c in w.conns):
                    continue
                c = w.accept(f"10.1.1.{pi + 1}")
                if c is not None:
                    c.intended = pi
            elif kind == "CER":
                cands = [c for c in w.conns if c.remote.direction == "in" and c.idx not in cer_sent and not c.node_closed
                         and not c.peer_closed]
                if not cands:
                    continue
                c = cands[-1]
                cer_sent.add(c.idx)
                pi = getattr(c, "intended", 0)
                if ev[1] in ("known", "known-mixed-case", "known-relay"):
                    c.host = f"peer{pi + 1}.example"
                    # DiameterIdentity is case-insensitive: the peer may spell its own name differently
                    spelled = f"Peer{pi + 1}.EXAMPLE" if ev[1] == "known-mixed-case" else c.host
                    # a relay agent advertises the Relay application only (RFC 6733 2.4) and is accepted
                    apps_ = [W.APP_RELAY] if ev[1] == "known-relay" else [4]
                    w.feed_msg(c, {"k": "CER", "host": spelled, "auth": apps_, "hbh": hbh, "e2e": hbh})
                elif ev[1] == "unknown":
                    w.feed_msg(c, {"k": "CER", "host": "stranger.example", "auth": [4], "hbh": hbh, "e2e": hbh})
                else:
                    c.host5010 = f"peer{pi + 1}.example"
                    w.feed_msg(c, {"k": "CER", "host": c.host5010, "auth": [77], "hbh": hbh, "e2e": hbh})
            elif kind == "DIAL":
                cands = [c for c in w.conns if c.remote.direction == "out" and c.remote.sock.state == "connecting"
                         and not c.node_closed]
                if cands:
                    w.connect_result(cands[ev[2] % len(cands)], ev[1])
            elif kind == "CEA":
                cands = [c for c in w.conns if c.remote.direction == "out" and c.remote.sock.state == "connected"
                         and not c.node_closed and not c.peer_closed and c.host is None]
                if cands:
                    c = cands[-1]
                    pi = int(c.remote.addr[0].split(".")[-1]) - 1
                    spelled_ = f"peer{pi + 1}.example" if hbh % 2 else f"PEER{pi + 1}.example"
                    if hbh % 5 == 0 and npeers > 1 and ev[1] == 2001:
                        # the dialled address answers with the identity of ANOTHER configured peer (addresses mixed
                        # up in the configuration): the connection still is the dialled peer's and nobody else's
                        spelled_ = f"peer{(pi + 1) % npeers + 1}.example"
                        other_identity.append(pi)
                    w.answer_cer(c, ev[1], auth=(W.APP_RELAY,) if hbh % 3 == 0 else (4,), host=f"peer{pi + 1}.example", spelled=spelled_)
                    c.host = f"peer{pi + 1}.example"
            else:
                live = [c for c in w.conns if not c.node_closed and not c.peer_closed]
                if kind == "ADV":
                    w.advance(ev[1])
                    continue
                if not live:
                    continue
                c = live[ev[1] % len(live)]
                host = c.host or "peer1.example"
                if kind == "REQ":
                    w.feed_msg(c, {"k": "REQ", "host": host, "hbh": hbh, "e2e": hbh})
                elif kind == "DWA":
                    w.feed_msg(c, {"k": "DWA", "host": host, "hbh": hbh, "e2e": hbh})
                elif kind == "DPR":
                    w.feed_msg(c, {"k": "DPR", "host": host, "hbh": hbh, "e2e": hbh})
                elif kind == "CLOSE":
                    w.peer_close(c)
                elif kind == "RESET":
                    w.peer_reset(c)
                elif kind == "WRITE_FAIL":
                    # the next send() on this socket fails hard (EPIPE); a DWR makes the node write a DWA
                    c.remote.fail_writes(32)
                    w.feed_msg(c, {"k": "DWR", "host": host, "hbh": hbh, "e2e": hbh})
                    c.peer_closed = True
                elif kind == "NODE_CLOSE":
                    nc = w.node_conn_for(c)
                    if nc is not None:
                        w.node.close_connection_socket(nc, pm.DISCONNECT_REASON_UNKNOWN)
                        w.run()
        w.advance(1)
        if other_identity:
            _collector.setdefault("classes", []).append("cea:identity-of-another-peer")
        return w.summary(), bool(W.monitor_threads(w))
    finally:
        w.close()


def evaluate(case) -> Result:
    res = Result()
    if case.get("machine"):
        import importlib
        mod = importlib.import_module(f"checks.{case['machine']}")
        (r2, viol, rwl) = with_monitor(lambda: mod.evaluate(case["case"]))
        res.classes.append(f"machine:{case['machine']}")
        res.sample = {"machine": case["machine"], "case": case["case"]}
    else:
        ((summary, died), viol, rwl) = with_monitor(lambda: run_dedicated(case))
        res.classes.append("machine:dedicated")
        res.classes += list(_collector.get("classes", []))
        if died:
            res.classes.append("cross:thread-died")
        for ev in case["events"]:
            res.classes.append(f"ev:{ev[0]}")
            if ev[0] == "CER" and ev[1] == "known-mixed-case":
                res.classes.append("cer:mixed-case")
            if ev[0] == "CER" and ev[1] == "known-relay":
                res.classes.append("cer:relay")
        res.sample = {"case": case, "transcript": summary[:3]}
    for sig, d in viol:
        res.v(sig, d)
    res.nontrivial = rwl
    return res


def dedicated_cases():
    acc = st.tuples(st.just("ACCEPT"), st.integers(0, 2), st.sampled_from(["fresh", "fresh", "fresh", "second"]))
    ev = st.one_of(acc, acc, st.tuples(st.just("CER"), st.sampled_from(["known", "known", "known-mixed-case", "known-relay", "unknown", "nocommon"])),
                   st.tuples(st.just("CER"), st.just("known")),
                   st.tuples(st.just("DIAL"), st.booleans(), st.integers(0, 2)),
                   st.tuples(st.just("CEA"), st.sampled_from([2001, 2001, 3010])),
                   st.tuples(st.just("REQ"), st.integers(0, 3)), st.tuples(st.just("DWA"), st.integers(0, 3)),
                   st.tuples(st.just("DPR"), st.integers(0, 3)), st.tuples(st.just("CLOSE"), st.integers(0, 3)),
                   st.tuples(st.just("RESET"), st.integers(0, 3)), st.tuples(st.just("NODE_CLOSE"), st.integers(0, 3)),
                   st.tuples(st.just("WRITE_FAIL"), st.integers(0, 3)),
                   st.tuples(st.just("ADV"), st.sampled_from([1, 1, 1, 2, 3, 4])))

    @st.composite
    def cases(draw):
        npeers = draw(st.integers(1, 3))
        peers = [{"persistent": draw(st.booleans()), "wait": draw(st.integers(1, 4))} for _ in range(npeers)]
        apps = [sorted(draw(st.lists(st.integers(0, npeers - 1), min_size=1, max_size=npeers, unique=True)))
                for _ in range(draw(st.integers(1, 2)))]
        return {"peers": peers, "apps": apps, "dial": draw(st.sampled_from(["inprogress", "ok"])),
                "idle": draw(st.integers(1, 5)), "dwa": draw(st.sampled_from([2, 3, 8, 30])), "wakeup": draw(st.integers(1, 2)),
                "seed": draw(st.integers(0, 7)), "yield_all": draw(st.booleans()),
                "events": [list(e) for e in draw(st.lists(ev, min_size=1, max_size=18))]}
    return cases()


def exclude_known(case) -> bool:
    """The known simultaneous-open hole (KNOWN_FINDINGS.txt) is excluded by
    construction from the dedicated generator: a second connection for a peer
    while it has one, or an inbound connection for a persistent peer that the
    node may be dialling at the same instant."""
    for ev in case["events"]:
        if ev[0] == "ACCEPT" and ev[2] == "second":
            return True
    for ev in case["events"]:
        if ev[0] == "ACCEPT" and case["peers"][ev[1] % len(case["peers"])]["persistent"]:
            return True
    return False


KNOWN_REPRO = {"peers": [{"persistent": False, "wait": 3}], "apps": [[0]], "dial": "ok", "idle": 50, "wakeup": 1,
               "events": [["ACCEPT", 0, "fresh"], ["CER", "known"], ["ACCEPT", 0, "second"], ["CER", "known"],
                          ["CLOSE", 0], ["ADV", 1]]}


def install_points():
    from dv import sched, simkernel as sk
    mods = sk.load_node()
    N = mods["node"].Node
    return sched.install({N.remove_peer_connection: None, N._flag_connection_as_ready: None,
                          N._assign_peer_connection: None, N.close_connection_socket: None,
                          N.receive_cer: r"_assign_peer_connection|_flag_connection_as_ready|send_message",
                          N.receive_cea: r"_assign_peer_connection|_flag_connection_as_ready",
                          N._handle_connections: r"\.recv\(|add_in_bytes|close_connection_socket\("})


def ready_vs_removal(decisions):
    """One peer of an application completes its CER (its reader thread flags the application ready) in the same
    instant in which the application's only other ready peer goes away (the I/O thread recomputes readiness)."""
    from dv import sched
    w = W.NodeWorld({"peers": [{"name": "peer1.example", "ip": ["10.1.1.1"]}, {"name": "peer2.example", "ip": ["10.1.1.2"]}],
                     "apps": [{"app_id": 4, "auth": True, "peers": [0, 1], "handler": "answer"}],
                     "node_timers": {"idle": 5000, "dwa": 50, "cer": 50, "cea": 50, "wakeup": 5}})
    try:
        w.start()
        # a's socket is older than b's: the I/O loop reads a's CER (handing it to a's reader thread) before it
        # notices b's EOF in the same turn
        a = w.accept("10.1.1.1")
        a.host = "peer1.example"
        b = w.handshake_in("peer2.example", auth=[4], ip="10.1.1.2", hbh=0x102)
        ex = sched.Explorer(decisions)
        sched.attach(w.k, ex)
        w.feed_msg(a, {"k": "CER", "host": "peer1.example", "auth": [4], "hbh": 0x101, "e2e": 0x101}, run=False)
        b.peer_closed = True
        b.remote.close()
        ex.armed = True
        w.k.run()
        ex.armed = False
        w.advance(1)
        problems = [(sig, d) for sig, d in W.monitor_tables(w)]
        for sig, d in W.monitor_threads(w):
            problems.append((f"thread-died/{sig}", d))
        return ex.trace, problems
    finally:
        w.close()


def handshake_vs_eof(decisions, direction="in"):
    """The CER (or, on a dialled connection, the CEA) and the EOF of the same connection reach the node in one
    instant: the connection's reader thread completes the capabilities exchange while the I/O thread removes the
    connection."""
    from dv import sched
    w = W.NodeWorld({"peers": [{"name": "peer1.example", "ip": ["10.1.1.1"], "persistent": direction == "out", "reconnect_wait": 1000}],
                     "apps": [{"app_id": 4, "auth": True, "peers": [0], "handler": "answer"}],
                     "node_timers": {"idle": 5000, "dwa": 50, "cer": 50, "cea": 50, "wakeup": 5}, "default_dial": "ok"})
    try:
        w.start()
        ex = sched.Explorer(decisions)
        sched.attach(w.k, ex)
        if direction == "in":
            a = w.accept("10.1.1.1")
            a.host = "peer1.example"
            w.feed_msg(a, {"k": "CER", "host": "peer1.example", "auth": [4], "hbh": 0x101, "e2e": 0x101}, run=False)
        else:
            a = w.conns[0]
            a.host = "peer1.example"
            cers = [f for f in a.refresh() if f.code == W.CMD_CE and f.is_request]
            w.feed_msg(a, {"k": "CEA", "host": "peer1.example", "result": 2001, "auth": [4], "hbh": cers[-1].h["hbh"], "e2e": cers[-1].h["e2e"]}, run=False)
        a.peer_closed = True
        a.remote.close()
        ex.armed = True
        w.k.run()
        ex.armed = False
        w.advance(1)
        problems = [(sig, d) for sig, d in W.monitor_tables(w)]
        for sig, d in W.monitor_threads(w):
            problems.append((f"thread-died/{sig}", d))
        return ex.trace, problems
    finally:
        w.close()


def schedule_part(rec, shard, nshards, thorough):
    from dv import sched
    from dv.common import fp
    info = install_points()
    if shard == 0:
        rec.extra["preemption_functions"] = info
    for direction in ("in", "out"):
        holder3 = {}

        def run_three(dec, direction=direction):
            tr, problems = handshake_vs_eof(dec, direction)
            holder3["last"] = problems
            return tr
        n3 = 0
        for dec, trace in sched.enumerate_schedules(run_three, 3 if thorough else 2, shard, nshards):
            case = {"handshake_vs_eof": direction, "schedule": {str(i): c for i, c in sorted(dec.items())}}
            for kind, detail in holder3["last"]:
                rec.violation(f"C13/handshake-vs-eof/{kind}", case, detail)
            n3 += 1
            rec.case(fp("sched-h", direction, tuple(sorted(dec.items()))) if dec else None,
                     ["schedule-exploration", f"handshake-vs-eof:{direction}", f"deviations:{len(dec)}"],
                     sample=lambda: dict(case, choice_points=len(trace)))
        rec.extra["handshake_vs_eof_schedules"] = rec.extra.get("handshake_vs_eof_schedules", 0) + n3
    holder = {}

    def run_one(dec):
        tr, problems = ready_vs_removal(dec)
        holder["last"] = problems
        return tr
    n = 0
    for dec, trace in sched.enumerate_schedules(run_one, 3 if thorough else 2, shard, nshards):
        case = {"ready_vs_removal": True, "schedule": {str(i): c for i, c in sorted(dec.items())}}
        for kind, detail in holder["last"]:
            rec.violation(f"C13/concurrent-readiness/{kind}", case, detail)
        n += 1
        rec.case(fp("sched", tuple(sorted(dec.items()))) if dec else None, ["schedule-exploration", f"deviations:{len(dec)}"],
                 sample=lambda: dict(case, choice_points=len(trace)))
    rec.extra["readiness_schedules"] = rec.extra.get("readiness_schedules", 0) + n


def shard_main(shard, nshards, tier, scale):
    rec = Recorder(PID)
    thorough = tier == "thorough"
    shrunk = set()
    schedule_part(rec, shard, nshards, thorough)
    if shard == 0:
        r = evaluate(KNOWN_REPRO)
        r.classes.append("known-finding-reproduction")
        record(rec, KNOWN_REPRO, r)
    n = int((9000 if thorough else 700) * scale)

    def body(case):
        if exclude_known(case):
            rec.excluded["simultaneous-connections-of-one-peer"] += 1
            # still run it: violations not involving the known hole are reported
        res = evaluate(case)
        record(rec, case, res, evaluate, "events", shrunk)
    hyp.run_given(dedicated_cases(), body, n, derive_seed(PID, "ded", shard), rec=rec)

    # (b) the other machines' generators with this monitor armed
    m = int((1500 if thorough else 90) * scale)
    for name in ("c06", "c07", "c09", "c10", "c11", "c12", "c17"):
        import importlib
        mod = importlib.import_module(f"checks.{name}")
        strat = machine_strategy(name, mod)
        if strat is None:
            continue

        def mbody(inner, name=name):
            case = {"machine": name, "case": inner}
            res = evaluate(case)
            record(rec, case, res)
        hyp.run_given(strat, mbody, m, derive_seed(PID, "machine", name, shard), rec=rec)
    return rec.dump()


def machine_strategy(name, mod):
    """Small case strategies for the other machines (their own generators are
    closures inside shard_main; these are equivalent light-weight versions)."""
    if name == "c06":
        return st.builds(lambda c, d, s: {"cfg": c, "dir": d, "syms": s}, st.integers(0, 3), st.sampled_from(["in", "out"]),
                         st.lists(st.sampled_from(mod.SYMS_OUT), min_size=1, max_size=8))
    if name == "c07":
        return st.builds(lambda n, o, k, e: {"nconn": n, "out0": o, "app_kind": k, "events": [[c % n, s] for c, s in e]},
                         st.integers(1, 3), st.booleans(), st.sampled_from(["basic", "threading"]),
                         st.lists(st.tuples(st.integers(0, 2), st.sampled_from(mod.SYMS)), min_size=1, max_size=12))
    if name == "c09":
        req = st.tuples(st.just("REQ"), st.integers(0, 2), st.integers(0, 2))
        ev = st.one_of(req, req, st.tuples(st.just("SUBMIT"), st.integers(0, 3)),
                       st.tuples(st.just("FAULT"), st.integers(0, 2), st.sampled_from(["eof", "reset", "dpr", "dpr-close", "reconnect"])),
                       st.tuples(st.just("ADV"), st.sampled_from([1, 2])))
        return st.builds(lambda n, k, e: {"npeers": n, "app_kind": k, "events": [list(x) for x in e]},
                         st.integers(1, 3), st.sampled_from(["basic", "threading"]), st.lists(ev, min_size=1, max_size=12))
    if name == "c11":
        adv = st.tuples(st.just("ADV"), st.integers(1, 6))
        ev = st.one_of(adv, adv, st.tuples(st.just("TRAFFIC")), st.tuples(st.just("DWR")), st.tuples(st.just("DWA")))
        return st.builds(lambda d, i, w_, wk, e: {"dir": d, "timers": {"idle": i, "dwa": w_, "wakeup": wk, "p_idle": None, "p_dwa": None},
                                                 "events": [list(x) for x in e]},
                         st.sampled_from(["in", "out"]), st.integers(1, 5), st.integers(1, 4), st.integers(1, 3),
                         st.lists(ev, min_size=1, max_size=25))
    if name == "c12":
        ev = st.one_of(st.tuples(st.just("ADV"), st.integers(1, 8)), st.tuples(st.just("CONNECT_OK")), st.tuples(st.just("CONNECT_FAIL")),
                       st.tuples(st.just("CEA"), st.sampled_from([2001, 3010])), st.tuples(st.just("CLOSE")),
                       st.tuples(st.just("RESET")), st.tuples(st.just("DPR_CLOSE")))
        return st.builds(lambda p, a, w_, wk, pl, e: {"flags": {"persistent": p, "always": a, "wait": w_, "addr": True, "wakeup": wk},
                                                     "dial_plan": pl, "events": [list(x) for x in e]},
                         st.booleans(), st.booleans(), st.integers(1, 5), st.integers(1, 4),
                         st.lists(st.sampled_from(["ok", "inprogress", ["sync-error", 111]]), max_size=4),
                         st.lists(ev, min_size=1, max_size=20))
    if name == "c17":
        req = st.tuples(st.just("REQ"), st.integers(0, 1), st.integers(0, 1), st.integers(1, 3), st.integers(0, 1),
                        st.sampled_from(["answer", "hold"]))
        return st.builds(lambda wd, t, e: {"window": wd, "two_conns": t, "events": [list(x) for x in e]},
                         st.integers(1, 4), st.booleans(), st.lists(req, min_size=1, max_size=8))
    if name == "c10":
        return mod.cases_strategy()
    return None


def run(tier, scale=1.0):
    t0 = time.time()
    rec = Recorder(PID)
    for d in hyp.pool_run(shard_main, (tier, scale)):
        rec.merge(d)
    required = {"schedule-exploration": 1, "cea:identity-of-another-peer": 1, "cer:relay": 1, "cer:mixed-case": 1, "machine:dedicated": 1, "machine:c10": 1, "machine:c06": 1, "machine:c12": 1, "machine:c09": 1, "ev:NODE_CLOSE": 1,
                "ev:ACCEPT": 1, "ev:DIAL": 1, "ev:RESET": 1, "ev:WRITE_FAIL": 1}
    return finish(rec, tier=tier, level="exploration", rule=RULE, assumptions=ASSUME, t0=t0,
                  required_classes=required)


def replay(doc):
    return generic_replay(PID, evaluate, doc)
