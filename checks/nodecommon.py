"""Plumbing shared by the node-level checks: running generated cases with
collect-then-shrink, sharding, evidence."""
from __future__ import annotations

import json
import time

from dv import hist, hyp
from dv.common import derive_seed, fp
from dv.evidence import Recorder, finish


class Result:
    __slots__ = ("violations", "classes", "nontrivial", "sample")

    def __init__(self):
        self.violations: list[tuple[str, str]] = []
        self.classes: list[str] = []
        self.nontrivial = False
        self.sample = None

    def v(self, sig, detail):
        if sig not in [s for s, _ in self.violations]:
            self.violations.append((sig, str(detail)[:1500]))


def record(rec: Recorder, case, res: Result, evaluate=None, shrink_key="events", shrunk=None):
    """Record one evaluated case; failing scripts are minimised with ddmin
    (first occurrence of each signature per shard)."""
    key = json.dumps(case, sort_keys=True, default=str)
    rec.case(fp(key) if res.nontrivial else None, res.classes,
             sample=(lambda: res.sample) if res.sample is not None else (lambda: case))
    for sig, detail in res.violations:
        small = case
        if evaluate is not None and shrunk is not None and sig not in shrunk and \
                isinstance(case.get(shrink_key), list) and len(case[shrink_key]) > 1:
            shrunk.add(sig)

            def fails(sub):
                c2 = dict(case)
                c2[shrink_key] = sub
                try:
                    r2 = evaluate(c2)
                except Exception:
                    return False
                return sig in [s for s, _ in r2.violations]
            try:
                sub = hist.ddmin(case[shrink_key], fails, max_tests=120)
                small = dict(case)
                small[shrink_key] = sub
            except Exception:
                small = case
        rec.violation(sig, small, detail, size=len(json.dumps(small, default=str)))


def generic_replay(pid, evaluate, doc):
    res = evaluate(doc["case"])
    sigs = [s for s, _ in res.violations]
    if doc["signature"] in sigs:
        d = dict(res.violations)[doc["signature"]]
        print(f"  replayed: {d[:300]}")
        print(f"VIOLATION property={pid} replay=(replay)")
        return 1
    print(f"[{pid}] replay: signature {doc['signature']} does not reproduce (got {sigs})")
    return 0
