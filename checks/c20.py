"""C20 -- answers built from requests mirror the header and use the paired class.

Enumerates every Message subclass (typed request/answer/base classes, untyped
commands) and unknown codes x all 256 flag octets (set before and after
construction) x boundary header values; helper clause through
Application.generate_answer / Node._generate_answer on typed requests with and
without Session-Id / Proxy-Info.  Oracle: header algebra from the statement, the
class pairing derived by name/subclass relation, E1 parse of the answer bytes.
"""
from __future__ import annotations

import time

from hypothesis import strategies as st

from dv import hyp, refcodec as R
from dv.common import derive_seed, fp
from dv.evidence import Recorder, finish
from checks.c02 import all_subclasses

PID = "C20"
RULE = ("exhaustive: every class in the Message subclass closure + unknown command codes x all 256 "
        "flag octets x {flags given to the constructor, flags set afterwards} x 3 boundary id/app-id "
        "tuples; helper clause: every typed request class x {Session-Id, Proxy-Info} presence x "
        "{Application.generate_answer (auth/acct), Node._generate_answer}; plus Hypothesis-drawn header "
        "values. Non-trivial: any of R/E/T set or P set in the request, or a helper case with "
        "Session-Id/Proxy-Info; distinct by (class, flags, ids, mode).")
ASSUME = ["expected answer class: for a class named <N>Request the subclass named <N>Answer of its ancestor named <N> (that ancestor itself if no such subclass, the generic Message if no such ancestor); any other class answers with its own class (as Message.to_answer documents)",
          "node/application answer helpers are exercised on typed requests only (their documented precondition)",
          "a Node object is constructed but never started for the helper clause; the connection passed to Node._generate_answer is a stand-in object "
          "with the attributes of a ready connection of a configured peer of another realm"]

IDS = [(1, 0, 0, 0), (1, 0xffffffff, 0xffffffff, 0xffffffff), (1, 16777238, 0x80000000, 1),
       (0, 4, 0x7fffffff, 0x01020304), (255, 1, 2, 3)]


_runtime_defined = []


def define_runtime_commands():
    """Commands registered through the documented diameter.message.commands.register(), with the Request / Answer /
    other subclasses defined in every order (the order in which __subclasses__() lists them)."""
    if _runtime_defined:
        return _runtime_defined
    from diameter.message import DefinedMessage
    from diameter.message.commands import register
    from diameter.message.avp.generator import AvpGenDef
    from diameter.message import constants as C_

    def make(base_name, code, order):
        def post(self):
            self.header.command_code = self.code
            DefinedMessage.__post_init__(self)
        Base = type(base_name, (DefinedMessage,), {"code": code, "name": base_name, "__post_init__": post})
        made = {}
        for suffix in order:
            ns = {"avp_def": (AvpGenDef("session_id", C_.AVP_SESSION_ID, is_required=False),
                              AvpGenDef("origin_host", C_.AVP_ORIGIN_HOST, is_required=False),
                              AvpGenDef("origin_realm", C_.AVP_ORIGIN_REALM, is_required=False),
                              AvpGenDef("result_code", C_.AVP_RESULT_CODE, is_required=False))}
            made[suffix] = type(base_name + suffix, (Base,), ns)
        Base.type_factory = classmethod(lambda cls, header: made["Request"] if header.is_request else made["Answer"])
        register(Base)
        return [Base] + list(made.values())
    _runtime_defined.extend(make("VerifAnswerFirst", 16000011, ["Answer", "Request"]))
    _runtime_defined.extend(make("VerifRequestFirst", 16000012, ["Request", "Answer"]))
    _runtime_defined.extend(make("VerifOtherFirst", 16000013, ["Variant", "Request", "Answer"]))
    return _runtime_defined


def expected_answer_class(K):
    from diameter.message import Message
    name = K.__name__
    if not name.endswith("Request"):
        return K
    base = name[:-7]
    for c in K.__mro__:
        if c.__name__ == base:
            for s in c.__subclasses__():
                if s.__name__ == base + "Answer":
                    return s
            return c
    return Message


def make_request(K, flags, ids, before: bool, code=None):
    from diameter.message import MessageHeader
    version, app, hbh, e2e = ids
    if before:
        h = MessageHeader(version, 0, flags, code if code is not None else getattr(K, "code", 0),
                          app, hbh, e2e)
        req = K(h)
    else:
        req = K()
        h = req.header
        h.version, h.application_id = version, app
        h.hop_by_hop_identifier, h.end_to_end_identifier = hbh, e2e
        if code is not None:
            h.command_code = code
        h.command_flags = flags
    return req


def check_to_answer(K, flags, ids, before, rec: Recorder, code=None):
    from diameter.message import DefinedMessage
    case = {"class": K.__name__, "flags": flags, "ids": ids, "flags_set": "ctor" if before else "after",
            "code": code}
    req = make_request(K, flags, ids, before, code)
    h = req.header
    snap = (h.version, h.command_flags, h.command_code, h.application_id,
            h.hop_by_hop_identifier, h.end_to_end_identifier)
    try:
        req_bytes = req.as_bytes()
    except Exception:
        req_bytes = None
    ans = req.to_answer()
    kind = "typed" if issubclass(K, DefinedMessage) and getattr(K, "avp_def", ()) else "generic"
    want = expected_answer_class(K)
    if type(ans) is not want:
        rec.violation(f"C20/class/{kind}", case, f"{type(ans).__name__} != {want.__name__}")
    a = ans.header
    for nm, got, exp in (("version", a.version, snap[0]), ("command_code", a.command_code, snap[2]),
                         ("application_id", a.application_id, snap[3]),
                         ("hop_by_hop", a.hop_by_hop_identifier, snap[4]),
                         ("end_to_end", a.end_to_end_identifier, snap[5])):
        if got != exp:
            rec.violation(f"C20/header/{nm}/{kind}", case, f"answer {nm}={got} request {exp}")
    if a.command_flags != (snap[1] & 0x40):
        wrong = a.command_flags ^ (snap[1] & 0x40)
        bits = "".join(n for n, b in (("R", 0x80), ("P", 0x40), ("E", 0x20), ("T", 0x10), ("r", 0x0f)) if wrong & b)
        rec.violation(f"C20/flags/{bits}/{kind}", case,
                      f"request flags {snap[1]:#04x} -> answer flags {a.command_flags:#04x}, expected {snap[1] & 0x40:#04x}")
    h = req.header
    after = (h.version, h.command_flags, h.command_code, h.application_id,
             h.hop_by_hop_identifier, h.end_to_end_identifier)
    if after != snap:
        rec.violation(f"C20/request-mutated/header/{kind}", case, f"{snap} -> {after}")
    if req_bytes is not None:
        try:
            if req.as_bytes() != req_bytes:
                rec.violation(f"C20/request-mutated/bytes/{kind}", case, "request encodes differently after to_answer()")
        except Exception as e:
            rec.violation(f"C20/request-mutated/raises/{kind}", case, repr(e))
    if ans is req or ans.header is req.header:
        rec.violation(f"C20/request-aliased/{kind}", case, "answer shares the request object/header")
    nt = fp(K.__name__, flags, ids, before, code) if (snap[1] & 0xf0) else None
    rec.case(nt, [f"kind:{kind}", "req-class" if K.__name__.endswith("Request") else "non-req-class",
                  f"set:{'ctor' if before else 'after'}"],
             sample=lambda: dict(case, answer_class=type(ans).__name__, answer_flags=a.command_flags))


# --------------------------------------------------------------------------
def typed_request_classes():
    from diameter.message import DefinedMessage
    return [k for k in all_subclasses(DefinedMessage)
            if k.__name__.endswith("Request") and getattr(k, "avp_def", ())]


def declares(cls, code, vendor=0):
    return any(d.avp_code == code and d.vendor_id == vendor for d in getattr(cls, "avp_def", ()))


def check_helpers(K, with_sid, with_pi, flags, ids, rec: Recorder, node, apps):
    from diameter.message.avp.grouped import ProxyInfo
    case = {"class": K.__name__, "session_id": with_sid, "proxy_info": with_pi, "flags": flags, "ids": ids}
    for how in ("app-auth", "app-acct", "node"):
        req = make_request(K, flags, ids, False)
        A_ = expected_answer_class(K)
        # the command has a Session-Id if its request or its answer declares one
        has_sid = with_sid and (declares(K, 263) or declares(A_, 263))
        has_pi = declares(K, 284) and with_pi
        if has_sid and declares(K, 263):
            req.session_id = "verif.host;1;2;3"
        elif has_sid:
            # the request class does not declare it: the AVP is on the wire all the same, and the request is what
            # decoding those bytes gives
            from diameter.message.avp import Avp
            from diameter.message import Message
            req.append_avp(Avp.new(263, value="verif.host;1;2;3"))
            try:
                req = Message.from_bytes(req.as_bytes())
            except Exception as e:
                rec.violation(f"C20/helper-raises/decode/{type(e).__name__}", dict(case, how=how), repr(e))
                continue
            rec.cls("helper:sid-undeclared-in-request")
        if has_pi:
            req.proxy_info = [ProxyInfo(proxy_host=b"p1.example", proxy_state=b"\x01\x02"),
                              ProxyInfo(proxy_host=b"p2.example", proxy_state=b"")]
            if flags & 0x40:
                # ... as received from a proxy that adds a member of its own to its Proxy-Info (the AVP is defined
                # with "* [ AVP ]"): the request is what decoding those bytes gives
                from diameter.message import Message
                from checks.c03 import _enc_tree
                try:
                    hdr_, tree_ = R.parse_message(req.as_bytes(), R.dict_is_grouped)
                    pis = [a for a in tree_ if a.code == 284 and a.vendor == 0 and a.children is not None]
                    pis[0].children.append(R.parse_avps(R.enc_avp(16777009, 0, 0x00, b"proxy-private"))[0])
                    req = Message.from_bytes(R.enc_message(hdr_["version"], hdr_["flags"], hdr_["code"], hdr_["app_id"],
                                                           hdr_["hbh"], hdr_["e2e"], _enc_tree(tree_)))
                    rec.cls("helper:proxy-info-with-extra-member")
                except Exception as e:
                    rec.violation(f"C20/helper-raises/decode/{type(e).__name__}", dict(case, how=how), repr(e))
                    continue
        req_tree = R.parse_message(req.as_bytes(), R.dict_is_grouped)[1]
        try:
            if how == "node":
                ans = node._generate_answer(node._verif_conn, req)
            else:
                ans = apps[how].generate_answer(req, result_code=2001, error_message="ok")
            out = ans.as_bytes()
        except Exception as e:
            rec.violation(f"C20/helper-raises/{how}/{type(e).__name__}", dict(case, how=how), repr(e))
            continue
        hdr, tree = R.parse_message(out, R.dict_is_grouped)
        A = type(ans)
        want = expected_answer_class(K)
        if A is not want:
            rec.violation(f"C20/helper/class/{how}", dict(case, how=how), f"{A.__name__} != {want.__name__}")
        exp_flags = flags & 0x40
        if (hdr["flags"], hdr["code"], hdr["app_id"], hdr["hbh"], hdr["e2e"], hdr["version"]) != (
                exp_flags, req.header.command_code, ids[1], ids[2], ids[3], ids[0]):
            rec.violation(f"C20/helper/header/{how}", dict(case, how=how), f"{hdr}")

        def vals(t, code):
            return [a.data for a in t if a.code == code and a.vendor == 0]
        if declares(A, 264) and vals(tree, 264) != [node.origin_host.encode()]:
            rec.violation(f"C20/helper/origin-host/{how}", dict(case, how=how), f"{vals(tree, 264)}")
        if declares(A, 296) and vals(tree, 296) != [node.realm_name.encode()]:
            rec.violation(f"C20/helper/origin-realm/{how}", dict(case, how=how), f"{vals(tree, 296)}")
        if has_sid and declares(A, 263) and vals(tree, 263) != vals(req_tree, 263):
            rec.violation(f"C20/helper/session-id/{how}", dict(case, how=how),
                          f"{vals(tree, 263)} != {vals(req_tree, 263)}")
        if not has_sid and vals(tree, 263):
            rec.violation(f"C20/helper/session-id-invented/{how}", dict(case, how=how), f"{vals(tree, 263)}")
        if has_pi and declares(A, 284) and vals(tree, 284) != vals(req_tree, 284):
            rec.violation(f"C20/helper/proxy-info/{how}", dict(case, how=how),
                          f"{len(vals(tree, 284))} Proxy-Info AVPs, request had {len(vals(req_tree, 284))}")
        if not has_pi and vals(tree, 284):
            rec.violation(f"C20/helper/proxy-info-invented/{how}", dict(case, how=how), "")
        # the request must not have been altered
        if [a.as_tuple() for a in R.parse_message(req.as_bytes(), R.dict_is_grouped)[1]] != \
                [a.as_tuple() for a in req_tree]:
            rec.violation(f"C20/helper/request-mutated/{how}", dict(case, how=how), "")
        # ... nor be altered by what the application then does to its answer: Proxy-Info is *copied* (the application
        # completing or trimming the answer's list works on the answer)
        if has_pi and isinstance(getattr(ans, "proxy_info", None), list) and ans.proxy_info:
            try:
                ans.proxy_info.pop()
                ans.proxy_info.append(ProxyInfo(proxy_host=b"p9.example", proxy_state=b"\x09"))
                after = R.parse_message(req.as_bytes(), R.dict_is_grouped)[1]
            except Exception as e:
                rec.violation(f"C20/helper-raises/answer-edit/{type(e).__name__}", dict(case, how=how), repr(e))
                after = None
            rec.cls("helper:answer-proxy-info-edited")
            if after is not None and [a.as_tuple() for a in after] != [a.as_tuple() for a in req_tree]:
                rec.violation(f"C20/helper/request-shares-proxy-info/{how}", dict(case, how=how),
                              "editing the answer's Proxy-Info list changed the request's encoding: the list object is shared")
        rec.case(fp("h", K.__name__, with_sid, with_pi, flags, ids, how) if (has_sid or has_pi) else None,
                 [f"helper:{how}", f"helper:sid={has_sid}", f"helper:pi={has_pi}"],
                 sample=lambda: dict(case, how=how, answer=out.hex()[:160]))


WIRE_IDS = [(0, 0), (0, 7), (7, 0), (0xffffffff, 0xffffffff), (0x80000000, 1), (1, 0xffffffff)]
WIRE_KINDS = [("CER", 0x80), ("DWR", 0x80), ("DWR", 0xc0), ("REQ", 0xc0), ("REQ", 0x80), ("REQ-unknown-app", 0xc0),
              ("REQ-incomplete", 0x80), ("REQ-handler-raises", 0xc0), ("REQ-threading", 0xc0), ("DPR", 0x80)]


def wire_case(kinds_ids, rec: Recorder):
    """The answers a node and its applications actually transmit: a started node (simulated transport), a peer
    that uses boundary identifiers from its first message on.  kinds_ids: [(kind, flags, hbh, e2e), ...]; a CER
    comes first, a DPR (if any) last."""
    from dv import world as W
    case = {"wire": [list(x) for x in kinds_ids]}
    w = W.NodeWorld({"peers": [{"name": "peer1.example", "ip": ["10.1.1.1"]}],
                     "apps": [{"app_id": 4, "auth": True, "peers": [0], "handler": "answer"},
                              {"app_id": 3, "acct": True, "auth": False, "peers": [0], "handler": "raise"},
                              {"app_id": 16777238, "auth": True, "peers": [0], "handler": "answer", "kind": "threading"}],
                     "node_timers": {"idle": 5000, "dwa": 50, "cer": 50, "cea": 50, "wakeup": 5}})
    try:
        w.start()
        c = w.accept("10.1.1.1")
        c.host = "peer1.example"
        for (kind, flags, hbh, e2e) in kinds_ids:
            n0 = len(c.refresh())
            base = {"host": "peer1.example", "hbh": hbh, "e2e": e2e, "flags": flags}
            if kind == "CER":
                m = dict(base, k="CER", auth=[4, 16777238], acct=[3])
                code, app = 257, 0
            elif kind == "DWR":
                m, code, app = dict(base, k="DWR"), 280, 0
            elif kind == "DPR":
                m, code, app = dict(base, k="DPR"), 282, 0
            elif kind == "REQ":
                m, code, app = dict(base, k="REQ"), 272, 4
            elif kind == "REQ-unknown-app":
                m, code, app = dict(base, k="REQ", app=999), 272, 999
            elif kind == "REQ-incomplete":
                m, code, app = dict(base, k="REQ", bare=True), 272, 4
            elif kind == "REQ-handler-raises":
                m, code, app = dict(base, k="REQ", code=271, app=3, bare=True), 271, 3
            else:
                m, code, app = dict(base, k="REQ", app=16777238), 272, 16777238
            w.feed_msg(c, m)
            w.advance(1)
            new = [f for f in c.refresh()[n0:] if not f.is_request]
            mine = [f for f in new if f.code == code]
            what = f"{kind} flags={flags:#x} hbh={hbh:#x} e2e={e2e:#x}"
            if len(mine) != 1:
                rec.violation(f"C20/wire/answer-count/{kind}", case, f"{what}: answers on the wire {[f.brief() for f in new]}")
                continue
            f = mine[0]
            got = (f.h["version"], f.h["code"], f.h["app_id"], f.h["hbh"], f.h["e2e"])
            if got != (1, code, app, hbh, e2e):
                rec.violation(f"C20/wire/header/{kind}", case, f"{what}: the answer on the wire bears (version, code, application, hop-by-hop, end-to-end) = {got}")
            if f.h["flags"] & 0x90 or (f.h["flags"] & 0x40) != (flags & 0x40):
                rec.violation(f"C20/wire/flags/{kind}", case, f"{what}: answer flags {f.h['flags']:#x}")
            oh = f.avp(264)
            oh = getattr(oh, "data", oh)
            if oh is not None and oh != W.NODE_HOST.encode():
                rec.violation(f"C20/wire/origin-host/{kind}", case, f"{what}: Origin-Host {oh!r}")
            rec.case(fp("wire", kind, flags, hbh, e2e), ["wire", f"wire:{kind}", "wire:zero-hbh" if hbh == 0 else "wire:nonzero-hbh",
                                                         "wire:zero-e2e" if e2e == 0 else "wire:nonzero-e2e"],
                     sample=lambda: {"request": what, "answer": f.brief()})
    finally:
        w.close()


def wire_part(rec: Recorder, shard, nshards, thorough):
    jobs = []
    body = [k for k in WIRE_KINDS if k[0] not in ("CER", "DPR")]
    for (h0, e0) in WIRE_IDS:
        for rot in range(len(body)):
            seq = [("CER", 0x80, h0, e0)]
            order = body[rot:] + body[:rot]
            for j, (kind, flags) in enumerate(order if thorough else order[:4]):
                h, e = WIRE_IDS[(j + rot) % len(WIRE_IDS)]
                if (h, e) == (h0, e0) or j == 0:
                    h, e = h0, e0                 # the same pair again: identifiers are unique among requests in flight only
                seq.append((kind, flags, h, e))
            seq.append(("DPR", 0x80, h0, e0))
            jobs.append(seq)
    for seq in jobs[shard::nshards]:
        wire_case(seq, rec)


def make_node_and_apps():
    import os
    from diameter.node import Node
    from diameter.node.application import Application
    node = Node("verif.node.example", "node.example")
    apps = {"app-auth": Application(4, is_auth_application=True),
            "app-acct": Application(3, is_acct_application=True)}
    for a in apps.values():
        a._node = node
    # a configured peer of ANOTHER realm with a (stand-in) ready connection: answers generated for requests
    # that arrived on it must still carry the node's own identity
    import types
    peer = node.add_peer("aaa://peer1.other.example", "other.realm", ip_addresses=["10.1.1.1"])
    conn = types.SimpleNamespace(ident="0a0b0c0d0e0f", node_name="peer1.other.example", host_identity="peer1.other.example",
                                 origin_host="verif.node.example", state=0x12, auth_application_ids=[4], acct_application_ids=[3])
    peer.connection = conn
    node._verif_conn = conn
    return node, apps


def shard_main(shard, nshards, tier, scale):
    import os
    from diameter.message import Message, UndefinedMessage
    rec = Recorder(PID)
    define_runtime_commands()
    classes = [Message] + all_subclasses(Message)
    rec.extra["classes_enumerated"] = len(classes)
    space = [(K, None) for K in classes] + [(UndefinedMessage, c) for c in (1, 999, (1 << 24) - 1)] + \
            [(Message, c) for c in (2, 70000)]
    jobs = [(K, code, f, before) for (K, code) in space for f in range(256) for before in (True, False)]
    for i, (K, code, f, before) in enumerate(jobs[shard::nshards]):
        for ids in (IDS[i % len(IDS)], IDS[(i // 7 + 1) % len(IDS)], IDS[(i // 3 + 2) % len(IDS)]):
            check_to_answer(K, f, ids, before, rec, code)

    node, apps = make_node_and_apps()
    try:
        treq = typed_request_classes()
        rec.extra["typed_request_classes"] = len(treq)
        hj = [(K, s, p, f) for K in treq for s in (False, True) for p in (False, True)
              for f in (0x80, 0xc0, 0xf0, 0xb0, 0x90, 0x00, 0x40)]
        for i, (K, s, p, f) in enumerate(hj[shard::nshards]):
            check_helpers(K, s, p, f, IDS[i % len(IDS)], rec, node, apps)

        # Hypothesis: arbitrary header values
        n = int((20000 if tier == "thorough" else 1500) * scale)
        u32 = st.integers(0, 0xffffffff)
        strat = st.tuples(st.sampled_from(classes), st.integers(0, 255),
                          st.tuples(st.integers(0, 255), u32, u32, u32), st.booleans())

        def body(c):
            check_to_answer(c[0], c[1], tuple(c[2]), c[3], rec)
        hyp.run_given(strat, body, n, derive_seed(PID, "hdr", shard), rec=rec)
    finally:
        os.close(node.interrupt_read)
        os.close(node.interrupt_write)
    wire_part(rec, shard, nshards, tier == "thorough")
    return rec.dump()


def run(tier, scale=1.0):
    t0 = time.time()
    rec = Recorder(PID)
    for d in hyp.pool_run(shard_main, (tier, scale)):
        rec.merge(d)
    required = {"helper:proxy-info-with-extra-member": 1, "helper:answer-proxy-info-edited": 1, "wire:zero-hbh": 1, "wire:zero-e2e": 1, "wire:CER": 1, "wire:DPR": 1, "wire:REQ": 1, "wire:REQ-unknown-app": 1,
                "wire:REQ-incomplete": 1, "wire:REQ-handler-raises": 1, "wire:REQ-threading": 1, "kind:typed": 1, "kind:generic": 1, "req-class": 1, "non-req-class": 1,
                "helper:node": 1, "helper:app-auth": 1, "helper:sid=True": 1, "helper:pi=True": 1}
    return finish(rec, tier=tier, level="exploration", rule=RULE, assumptions=ASSUME, t0=t0,
                  exhaustive=True, required_classes=required,
                  extra_cov={"exhaustive_part": "class closure x 256 flag octets x {ctor, after} is enumerated completely; ids are boundary tuples + Hypothesis samples"})


def replay(doc):
    from diameter.message import Message
    rec = Recorder(PID)
    case = doc["case"]
    define_runtime_commands()
    classes = {k.__name__: k for k in [Message] + all_subclasses(Message)}
    if "wire" in case:
        wire_case([tuple(x) for x in case["wire"]], rec)
        K = None
    else:
        K = classes[case["class"]]
    if "wire" in case:
        pass
    elif "how" in case:
        node, apps = make_node_and_apps()
        check_helpers(K, case["session_id"], case["proxy_info"], case["flags"], tuple(case["ids"]), rec, node, apps)
    else:
        check_to_answer(K, case["flags"], tuple(case["ids"]), case["flags_set"] == "ctor", rec, case.get("code"))
    if doc["signature"] in rec.violations:
        print(f"  replayed: {rec.violations[doc['signature']]['detail'][:300]}")
        print(f"VIOLATION property={PID} replay=(replay)")
        return 1
    print(f"[{PID}] replay: signature does not reproduce")
    return 0
