"""C17 -- retransmitted (T-flag) duplicates of answered requests are rejected, no others.

Histories of up to 12 requests from 1..2 origin hosts (on one or two
connections) with T in {0,1}, end-to-end ids from a pool of 3, answered inline
or held and answered later, DWR/DWA in between, window sizes 1..4.
Reference model: per origin host a bounded FIFO of the end-to-end ids of the
answers observed on the wire; a T-flagged request whose (origin, e2e) is in the
window must be answered 5012 by the node and not delivered, any other request
must be delivered.
"""
from __future__ import annotations

import collections
import time

from hypothesis import strategies as st

from dv import hyp, world as W
from dv.common import derive_seed
from dv.evidence import Recorder, finish
from checks.nodecommon import Result, record, generic_replay

PID = "C17"
RULE = ("histories of 1..12 events {request(conn, origin host, e2e from a pool of 3, T flag, answered "
        "inline | held), submit the answer of a held request, DWR} on 1..2 connections with 1..2 origin "
        "hosts, retransmit window size 1..4, basic/threading application. Non-trivial: a T-flagged repeat "
        "of an answered id, or an eviction from the window (more answers to an origin than the window "
        "holds); distinct by script.")
ASSUME = ["the window of an origin holds the end-to-end ids of the most recent N answers transmitted for requests of that origin (every answer counts: CEA, DWA, rejections)",
          "hop-by-hop ids are unique (generator), end-to-end ids repeat on purpose",
          "evaluation at quiescent points; the model is driven by the answers observed on the virtual sockets"]


def world_cfg(case):
    return {"peers": [{"name": "peer1.example", "ip": ["10.1.1.1"]}, {"name": "peer2.example", "ip": ["10.1.1.2"]}],
            "apps": [{"app_id": 4, "auth": True, "peers": [0, 1], "kind": case.get("app_kind", "basic"), "handler": "answer"}],
            "retransmit_queue_size": case["window"], "sched_seed": case.get("seed", 0),
            "node_timers": {"idle": 100000, "dwa": 4, "cer": 4, "cea": 4, "wakeup": 5}}


def evaluate(case) -> Result:
    res = Result()
    w = W.NodeWorld(world_cfg(case))
    try:
        w.start()
        N = case["window"]
        window = collections.defaultdict(lambda: collections.deque(maxlen=N))
        conns = [w.handshake_in("peer1.example", auth=[4], ip="10.1.1.1", hbh=0x101)]
        if case.get("two_conns"):
            conns.append(w.handshake_in("peer2.example", auth=[4], ip="10.1.1.2", hbh=0x102))
        hosts = ["peer1.example", "peer2.example"]
        # the CEAs were answers to these origins
        window[hosts[0]].append(0x101)
        if len(conns) > 1:
            window[hosts[1]].append(0x102)
        req_origin = {}          # hbh -> (origin, e2e, conn idx)
        seen_out = [0] * len(conns)
        held = []
        hbh = 0x4000
        mode_of = {}
        w.behaviour_fn = lambda rec: mode_of.get(rec["hbh"], "answer")
        repeats = evictions = reconnects = 0
        per_conn = {}
        answers_per_origin = collections.Counter({hosts[0]: 1, hosts[1]: 1 if len(conns) > 1 else 0})

        def absorb():
            """advance the model with the answers that appeared on the wire"""
            nonlocal evictions
            for ci, c in enumerate(conns):
                out = c.refresh()
                for f in out[seen_out[ci]:]:
                    if f.is_request:
                        continue
                    info = req_origin.get((ci, f.h["hbh"]))
                    if info is None:
                        continue
                    origin, e2e, _ = info
                    if len(window[origin]) == N:
                        evictions += 1
                    window[origin].append(e2e)
                    answers_per_origin[origin] += 1
                seen_out[ci] = len(out)

        for ev in case["events"]:
            kind = ev[0]
            if kind == "REQ":
                _, ci, oi, e2e, T, mode = ev
                ci = ci % len(conns)
                origin = hosts[oi % 2]
                hbh += 1
                if case.get("per_conn_hbh"):
                    # hop-by-hop identifiers are chosen per connection: two connections may use the same values
                    per_conn[ci] = per_conn.get(ci, 0x4000) + 1
                    # ... but not a (hop-by-hop, end-to-end) pair that is pending on another connection: answers to
                    # such requests are misrouted (known finding of C09, see KNOWN_FINDINGS.txt)
                    while any(r.get("_ci") != ci and r["hbh"] == per_conn[ci] and r["e2e"] == e2e for r in held):
                        per_conn[ci] += 1
                        res.classes.append("excluded:equal-id-pair-pending-elsewhere")
                    hbh = per_conn[ci]
                in_window = e2e in window[origin]
                expect_reject = bool(T) and in_window
                if T and in_window:
                    repeats += 1
                mode_of[hbh] = mode
                req_origin[(ci, hbh)] = (origin, e2e, ci)
                n_seen = len(w.requests_seen)
                w.feed_msg(conns[ci], {"k": "REQ", "host": origin, "hbh": hbh, "e2e": e2e, "T": bool(T)})
                w.advance(1)
                c = conns[ci]
                outs = [f for f in c.refresh()[seen_out[ci]:] if not f.is_request and f.h["hbh"] == hbh]
                delivered = [r for r in w.requests_seen[n_seen:] if r["hbh"] == hbh]
                rc = outs[0].result_code() if outs else None
                desc = f"request hbh={hbh:#x} e2e={e2e} T={T} origin={origin} window={list(window[origin])}"
                if expect_reject:
                    if delivered:
                        res.v("C17/duplicate-delivered", f"{desc}: delivered to the application again")
                    elif rc != 5012:
                        res.v("C17/duplicate-not-rejected", f"{desc}: answered {rc}, expected 5012")
                else:
                    if not delivered:
                        why = "T-flag" if T else "no T flag"
                        res.v("C17/false-duplicate/" + ("id-not-in-window" if T else "no-T-flag"),
                              f"{desc}: not delivered (answer {rc}) although {why} and id "
                              f"{'not ' if not in_window else ''}in the window")
                    elif len(delivered) > 1:
                        res.v("C17/delivered-twice", desc)
                if delivered and mode == "hold":
                    delivered[0]["_ci"] = ci
                    held.append(delivered[0])
                absorb()
            elif kind == "ANSWER":
                if held:
                    r = held.pop(ev[1] % len(held))
                    w.submit_answer(r)
                    w.advance(1)
                    absorb()
            elif kind == "RECONNECT":
                # the origin's connection goes away (abruptly or after a DPR) and comes back: the window is per origin host
                ci = ev[1] % len(conns)
                c = conns[ci]
                if ev[2] == "dpr":
                    hbh += 1
                    req_origin[(ci, hbh)] = (hosts[ci], hbh, ci)
                    w.feed_msg(c, {"k": "DPR", "host": hosts[ci], "hbh": hbh, "e2e": hbh})
                    absorb()
                w.peer_close(c)
                held[:] = [r for r in held if r.get("_ci") != ci]
                hbh += 1
                conns[ci] = w.handshake_in(hosts[ci], auth=[4], ip=f"10.1.1.{ci + 1}", hbh=hbh)
                for key_ in [k_ for k_ in req_origin if k_[0] == ci]:
                    del req_origin[key_]            # a new connection: its hop-by-hop numbering starts afresh
                req_origin[(ci, hbh)] = (hosts[ci], hbh, ci)
                seen_out[ci] = 0
                reconnects += 1
                absorb()
            elif kind == "ADV":
                # time passes (a held request stays pending: applications may take long)
                w.advance(ev[1])
                res.classes.append("time-passes")
                absorb()
            elif kind == "DWR":
                ci = ev[1] % len(conns)
                hbh += 1
                origin = hosts[ci]
                req_origin[(ci, hbh)] = (origin, hbh, ci)
                w.feed_msg(conns[ci], {"k": "DWR", "host": origin, "hbh": hbh, "e2e": hbh})
                absorb()
        if W.monitor_threads(w):
            res.classes.append("cross:thread-died")
        res.nontrivial = repeats > 0 or evictions > 0
        res.classes += [f"reconnects:{min(reconnects, 2)}", f"window:{N}", f"repeats:{min(repeats, 3)}", f"evictions:{min(evictions, 3)}",
                        f"two_conns:{bool(case.get('two_conns'))}", f"app:{case.get('app_kind', 'basic')}"]
        res.sample = {"case": case, "windows": {k: list(v) for k, v in window.items()}}
        return res
    finally:
        w.close()


def install_points():
    from dv import sched, simkernel as sk
    mods = sk.load_node()
    return sched.install({mods["node"].Node._record_answer: None})


def first_answers_of_an_origin(decisions):
    """The first two requests of one origin host arrive over two connections (two relays) in the same instant and are
    answered by the two reader threads concurrently; afterwards a T-flagged repeat of either must be rejected."""
    from dv import sched
    w = W.NodeWorld(world_cfg({"window": 4}))
    try:
        w.start()
        conns = [w.handshake_in(f"peer{i + 1}.example", auth=[4], ip=f"10.1.1.{i + 1}", hbh=0x101 + i) for i in range(2)]
        ex = sched.Explorer(decisions)
        sched.attach(w.k, ex)
        for i, c in enumerate(conns):
            w.feed_msg(c, {"k": "REQ", "host": "client.example", "hbh": 0x4001 + i, "e2e": 0x71 + i}, run=False)
        ex.armed = True
        w.k.run()
        ex.armed = False
        w.advance(1)
        problems = []
        for i, c in enumerate(conns):
            n_seen = len(w.requests_seen)
            w.feed_msg(c, {"k": "REQ", "host": "client.example", "hbh": 0x4011 + i, "e2e": 0x71 + i, "T": True})
            w.advance(1)
            outs = [f for f in c.refresh() if not f.is_request and f.h["hbh"] == 0x4011 + i]
            if [r for r in w.requests_seen[n_seen:] if r["hbh"] == 0x4011 + i]:
                problems.append(("duplicate-delivered", f"T-flagged repeat of end-to-end {0x71 + i:#x} (answered before) was delivered again"))
            elif not outs or outs[0].result_code() != 5012:
                problems.append(("duplicate-not-rejected", f"repeat of {0x71 + i:#x} answered {[f.brief() for f in outs]}"))
        for sig, d in W.monitor_threads(w):
            problems.append((f"thread-died/{sig}", d))
        return ex.trace, problems
    finally:
        w.close()


def schedule_part(rec, shard, nshards, thorough):
    from dv import sched
    from dv.common import fp
    info = install_points()
    if shard == 0:
        rec.extra["preemption_functions"] = info
    holder = {}

    def run_one(dec):
        tr, problems = first_answers_of_an_origin(dec)
        holder["last"] = problems
        return tr
    n = 0
    for dec, trace in sched.enumerate_schedules(run_one, 3 if thorough else 2, shard, nshards):
        case = {"first_answers_of_an_origin": True, "schedule": {str(i): c for i, c in sorted(dec.items())}}
        for kind, detail in holder["last"]:
            rec.violation(f"C17/concurrent-first-answers/{kind}", case, detail)
        n += 1
        rec.case(fp("sched", tuple(sorted(dec.items()))) if dec else None, ["schedule-exploration", f"deviations:{len(dec)}"],
                 sample=lambda: dict(case, choice_points=len(trace)))
    rec.extra["first_answer_schedules"] = rec.extra.get("first_answer_schedules", 0) + n


def shard_main(shard, nshards, tier, scale):
    rec = Recorder(PID)
    thorough = tier == "thorough"
    shrunk = set()
    schedule_part(rec, shard, nshards, thorough)
    n = int((10000 if thorough else 700) * scale)
    req = st.tuples(st.just("REQ"), st.integers(0, 1), st.integers(0, 1), st.integers(1, 3),
                    st.integers(0, 1), st.sampled_from(["answer", "hold"]))
    ev = st.one_of(req, req, req, st.tuples(st.just("ANSWER"), st.integers(0, 3)),
                   st.tuples(st.just("DWR"), st.integers(0, 1)), st.tuples(st.just("ADV"), st.sampled_from([2, 45, 120])),
                   st.tuples(st.just("RECONNECT"), st.integers(0, 1), st.sampled_from(["close", "dpr"])))

    @st.composite
    def cases(draw):
        return {"window": draw(st.integers(1, 4)), "two_conns": draw(st.booleans()), "per_conn_hbh": draw(st.booleans()),
                "app_kind": draw(st.sampled_from(["basic", "basic", "threading"])),
                "seed": draw(st.integers(0, 3)),
                "events": [list(e) for e in draw(st.lists(ev, min_size=1, max_size=12))]}

    def body(case):
        res = evaluate(case)
        record(rec, case, res, evaluate, "events", shrunk)
    hyp.run_given(cases(), body, n, derive_seed(PID, "rand", shard), rec=rec)
    return rec.dump()


def run(tier, scale=1.0):
    t0 = time.time()
    rec = Recorder(PID)
    for d in hyp.pool_run(shard_main, (tier, scale)):
        rec.merge(d)
    required = {"time-passes": 1, "schedule-exploration": 1, "reconnects:1": 1, "window:1": 1, "window:4": 1, "repeats:1": 1, "evictions:1": 1, "two_conns:True": 1,
                "app:threading": 1}
    return finish(rec, tier=tier, level="exploration", rule=RULE, assumptions=ASSUME, t0=t0,
                  required_classes=required)


def replay(doc):
    if doc["case"].get("first_answers_of_an_origin"):
        install_points()
        _, problems = first_answers_of_an_origin({int(i): c for i, c in doc["case"]["schedule"].items()})
        sigs = [f"C17/concurrent-first-answers/{k}" for k, _ in problems]
        if doc["signature"] in sigs:
            print(f"  replayed: {problems[0][1][:300]}")
            print(f"VIOLATION property={PID} replay=(replay)")
            return 1
        print(f"[{PID}] replay: signature {doc['signature']} does not reproduce (got {sigs})")
        return 0
    return generic_replay(PID, evaluate, doc)
