"""C01 -- AVP value <-> wire codec is exact, RFC 6733-conformant and lossless.

Oracle: the independent reference codec dv.refcodec (E1).
  D1  Avp.new(entry, value, M, P).as_bytes()  == E1 encoding            (byte for byte)
  D2  Avp.from_bytes(E1 bytes): dictionary class, code, vendor, flags, value equal
  D3  Avp.from_bytes(b).as_bytes() == b for every well-formed b
  D4  out-of-domain values raise (anything); if accepted, report what was stored
"""
from __future__ import annotations

import datetime
import time

from hypothesis import strategies as st

from dv import hyp, libbuild as L, refcodec as R, strategies as S
from dv.common import derive_seed, fp
from dv.evidence import Recorder, finish

import diameter.message            # noqa: E402,F401  (the codec's module state is recorded before its first use)
import diameter.message.commands   # noqa: E402,F401
from dv import codecthreads as CT

PRISTINE = CT.ModuleState()

PID = "C01"
RULE = ("cases = (dictionary entry | run-time registered definition | unknown code) x "
        "(M,P) flag choice x type-directed value (boundary-biased) or well-formed wire AVP; "
        "part A enumerates every dictionary entry x 9 flag choices x a fixed boundary pool "
        "exhaustively, part B draws (entry, flags, value) and grouped trees (depth<=6) with "
        "Hypothesis. Non-trivial: payload is not the type's zero/empty value; distinct by "
        "(code, vendor, flag octet, payload hash).")
ASSUME = ["process TZ=UTC; naive whole-second datetimes",
          "E.164 values are digit strings; IPv6 text forms are those of RFC 5952/4291 accepted by inet_pton",
          "binary32 NaN patterns limited to those the platform's C float<->double conversion preserves",
          "the AVP dictionary (code, vendor -> type, default M) is read from the repository as data",
          "reference codec dv/refcodec.py is the trusted oracle (written from RFC 6733 / RFC 4330 s.3)"]

FLAG_CHOICES = [(m, p) for m in (None, True, False) for p in (None, True, False)]

# fixed boundary pools (part A, exhaustive over entries x flags)
POOL = {
    "Integer32": [0, 1, -1, S.I32[0], S.I32[1], 0x01020304],
    "Enumerated": [0, 1, -1, S.I32[0], S.I32[1]],
    "Integer64": [0, 1, -1, S.I64[0], S.I64[1], 0x0102030405060708],
    "Unsigned32": [0, 1, S.U32[1], 1 << 31, 0x01020304],
    "Unsigned64": [0, 1, S.U64[1], 1 << 63, 0x0102030405060708],
    "Float32": [0x00000000, 0x80000000, 0x3fc00000, 0x7f800000, 0x00000001, 0x7fc00000],
    "Float64": [0, 1 << 63, 0x3ff8000000000000, 0x7ff0000000000000, 1, 0x7ff8000000000000],
    "OctetString": ["", "00", "0102", "010203", "01020304", "0102030405", "ff" * 17],
    "untyped": ["", "00", "0102", "010203", "01020304"],
    "UTF8String": ["", "a", "ab", "abc", "abcd", "é€\U0001f600", "x" * 33],
    "Address": ["10.0.0.1", "255.255.255.255", "::1", "2001:db8::8:800:200c:417a",
                "41780009999", "1"],
    "Time": [R.TIME_MIN_UNIX, R.TIME_MAX_UNIX, R.ERA - R.NTP_UNIX_DELTA - 1,
             R.ERA - R.NTP_UNIX_DELTA, 0, 1700000000, R.ERA - R.NTP_UNIX_DELTA - 1800,
             3000000000],
}


def _vs(t, j):
    return {"t": t, "j": j}


def trivial_payload(ref_payload: bytes) -> bool:
    return len(ref_payload) == 0 or not any(ref_payload)


# --------------------------------------------------------------------------
# the oracle for one avp spec
# --------------------------------------------------------------------------
def check_spec(D: S.Dict, a, rec: Recorder, cls_expected=None, origin="dict"):
    from diameter.message.avp import Avp
    code, vendor = a["code"], a["vendor"]
    tname = a["v"]["t"]
    tcls = "Time/" + L.time_class(a["v"]["j"]) if tname == "Time" else tname
    try:
        ref = S.ref_encode(D, a)
    except R.RefError:
        rec.excluded["ref-unencodable"] += 1
        return
    hdr = 12 if vendor else 8
    payload = ref[hdr:int.from_bytes(ref[5:8], "big")]

    # D1 encode
    try:
        lib, _ = L.build_lib_avp(D, a)
        out = lib.as_bytes()
    except Exception as e:
        rec.violation(f"C01/encode-raises/{tcls}/{type(e).__name__}", a,
                      f"in-domain value rejected: {e!r}")
        out = None
    if out is not None and out != ref:
        rec.violation(f"C01/encode/{tcls}/{L.diff_class(out, ref)}", a,
                      f"lib={out.hex()[:160]} ref={ref.hex()[:160]}")

    # D2 decode
    try:
        dec = Avp.from_bytes(ref)
    except Exception as e:
        rec.violation(f"C01/decode-raises/{tcls}/{type(e).__name__}", a, repr(e))
        dec = None
    if dec is not None:
        want_cls = cls_expected or D.by_key[(code, vendor)][3]
        if type(dec) is not want_cls:
            rec.violation(f"C01/decode/{tcls}/class", a,
                          f"{type(dec).__name__} != {want_cls.__name__}")
        if dec.code != code:
            rec.violation(f"C01/decode/{tcls}/code", a, f"{dec.code} != {code}")
        if dec.vendor_id != vendor:
            rec.violation(f"C01/decode/{tcls}/vendor", a, f"{dec.vendor_id} != {vendor}")
        if dec.flags != ref[4]:
            rec.violation(f"C01/decode/{tcls}/flags", a, f"{dec.flags:#x} != {ref[4]:#x}")
        if (dec.is_mandatory, dec.is_private, dec.is_vendor) != (
                bool(ref[4] & 0x40), bool(ref[4] & 0x20), bool(ref[4] & 0x80)):
            rec.violation(f"C01/decode/{tcls}/flag-properties", a, "M/P/V accessors disagree with flag octet")
        if dec.length != int.from_bytes(ref[5:8], "big"):
            rec.violation(f"C01/decode/{tcls}/length", a, f"{dec.length}")
        try:
            if tname == "Grouped":
                msg = grouped_matches(D, a, dec)
            else:
                msg = L.value_matches(a["v"], dec.value)
        except Exception as e:
            msg = f"value getter raised {e!r}"
        if msg:
            rec.violation(f"C01/decode/{tcls}/value", a, msg)
        # D3 re-encode
        try:
            again = dec.as_bytes()
            if again != ref:
                rec.violation(f"C01/reencode/{tcls}/{L.diff_class(again, ref)}", a,
                              f"{again.hex()[:160]} != {ref.hex()[:160]}")
        except Exception as e:
            rec.violation(f"C01/reencode-raises/{tcls}/{type(e).__name__}", a, repr(e))

    nt = None if trivial_payload(payload) else fp(code, vendor, ref[4], hash(payload))
    classes = [f"type:{tname}", f"len%4:{len(payload) % 4}", f"origin:{origin}",
               f"flags:M={a['m']},P={a['p']}"]
    if tname == "Time":
        classes.append("time:" + L.time_class(a["v"]["j"]))
    if tname == "Grouped":
        classes.append(f"depth:{S.spec_depth(a)}")
    rec.case(nt, classes, sample=lambda: {"avp": a, "wire": ref.hex()[:200]})


def grouped_matches(D, a, dec):
    kids = dec.value
    want = a["v"]["j"]
    if not isinstance(kids, list) or len(kids) != len(want):
        return f"group has {len(kids) if isinstance(kids, list) else kids!r} children, expected {len(want)}"
    for k, w in zip(kids, want):
        wref = S.ref_encode(D, w)
        if k.as_bytes() != wref:
            return f"child {w['code']}/{w['vendor']} bytes differ"
        wcls = D.by_key[(w["code"], w["vendor"])][3]
        if type(k) is not wcls:
            return f"child class {type(k).__name__} != {wcls.__name__}"
        if w["v"]["t"] == "Grouped":
            m = grouped_matches(D, w, k)
        else:
            m = L.value_matches(w["v"], k.value)
        if m:
            return f"child {w['code']}/{w['vendor']}: {m}"
    return None


# --------------------------------------------------------------------------
# wire-side cases (D3 for arbitrary payloads, reserved bits, unknown codes)
# --------------------------------------------------------------------------
def check_wire(D: S.Dict, w, rec: Recorder):
    """w = {code, vendor, flags(M,P,reserved bits), payload hex}"""
    from diameter.message.avp import Avp
    code, vendor = w["code"], w["vendor"]
    data = bytes.fromhex(w["payload"])
    ref = R.enc_avp(code, vendor, w["flags"], data)
    known = (code, vendor) in D.by_key
    tname = D.tname(code, vendor)
    try:
        dec = Avp.from_bytes(ref + bytes.fromhex(w.get("trail", "")))
    except Exception as e:
        rec.violation(f"C01/wire-decode-raises/{tname}/{type(e).__name__}", w, repr(e))
        return
    want_cls = D.by_key[(code, vendor)][3] if known else Avp
    if type(dec) is not want_cls:
        rec.violation(f"C01/wire-decode/{tname}/class", w,
                      f"{type(dec).__name__} != {want_cls.__name__}")
    if (dec.code, dec.vendor_id, dec.flags, dec.payload) != (code, vendor, ref[4], data):
        rec.violation(f"C01/wire-decode/{tname}/fields", w,
                      f"{(dec.code, dec.vendor_id, dec.flags)} payload_equal={dec.payload == data}")
    if not known:
        try:
            v = dec.value
        except Exception as e:
            v = e
        if v != data:
            rec.violation("C01/wire-decode/untyped/value", w, f"generic AVP value is not its payload: {v!r}"[:300])
    try:
        again = dec.as_bytes()
        if again != ref:
            rec.violation(f"C01/wire-reencode/{tname}/{L.diff_class(again, ref)}", w,
                          f"{again.hex()[:160]} != {ref.hex()[:160]}")
    except Exception as e:
        rec.violation(f"C01/wire-reencode-raises/{tname}/{type(e).__name__}", w, repr(e))
    if not known:
        try:
            Avp.new(code, vendor)
            rec.violation("C01/new-unknown-accepted", w, "Avp.new() built an AVP for a (code, vendor) pair with no dictionary entry")
        except ValueError:
            pass
        # direct construction of an untyped AVP (the documented way for unknown codes)
        try:
            a = Avp(code, vendor, data, w["flags"] & 0x7f)
            if a.as_bytes() != ref:
                rec.violation("C01/encode/untyped/" + L.diff_class(a.as_bytes(), ref), w,
                              "Avp(code, vendor, payload, flags).as_bytes() differs")
        except Exception as e:
            rec.violation(f"C01/encode-raises/untyped/{type(e).__name__}", w, repr(e))
    nt = None if trivial_payload(data) else fp("w", code, vendor, ref[4], hash(data))
    shadow = not known and any(c == code for c, _ in D.by_key)
    rec.case(nt, [f"wire:{'known' if known else 'unknown'}"] + (["wire:vendor-shadow"] if shadow else []) + [ f"len%4:{len(data) % 4}",
                  f"wire-reserved:{bool(w['flags'] & 0x1f)}"],
             sample=lambda: {"wire_avp": w})


@st.composite
def wire_cases(draw, D: S.Dict):
    k = draw(st.integers(0, 5))
    if k < 2:
        e = draw(st.sampled_from(D.entries))
        code, vendor = e[0], e[1]
    elif k < 4:
        # a dictionary code under another vendor (unknown vendor, known vendor
        # without that code, or no vendor): must not borrow the other entry
        e = draw(st.sampled_from(D.entries))
        code = e[0]
        vendor = draw(st.one_of(st.sampled_from(D.vendors + [0, 99999, 4491]),
                                st.integers(1, (1 << 32) - 1)))
    else:
        code = draw(st.one_of(st.integers(0, (1 << 32) - 1),
                              st.sampled_from([0, 1, 263, (1 << 32) - 1, 99999999])))
        vendor = draw(st.one_of(st.just(0), st.integers(1, (1 << 32) - 1),
                                st.sampled_from([10415, 1, (1 << 32) - 1])))
    flags = draw(st.integers(0, 0x7f))
    data = draw(S.octets(4096))
    trail = draw(st.sampled_from(["", "", "00000000", "deadbeef00"]))
    return {"code": code, "vendor": vendor, "flags": flags, "payload": data.hex(),
            "trail": trail}


# --------------------------------------------------------------------------
# out-of-domain twins (D4)
# --------------------------------------------------------------------------
OOD = {
    "Integer32": [("above", S.I32[1] + 1), ("below", S.I32[0] - 1), ("huge", 1 << 70),
                  ("fraction", 1.5), ("text", "12")],
    "Integer64": [("above", S.I64[1] + 1), ("below", S.I64[0] - 1), ("huge", 1 << 70),
                  ("fraction", 0.5)],
    "Unsigned32": [("above", S.U32[1] + 1), ("negative", -1), ("huge", 1 << 70),
                   ("fraction", 2.5)],
    "Unsigned64": [("above", S.U64[1] + 1), ("negative", -1), ("huge", 1 << 70)],
    "Float32": [("overflow", 3.5e38), ("overflow-neg", -1e39), ("text", "1.0")],
    "Float64": [("text", "1.0"), ("bytes", b"\0" * 8)],
    "OctetString": [("text", "abc"), ("int", 5), ("list", [1, 2])],
    "UTF8String": [("lone-surrogate", "a\ud800b"), ("bytes", b"abc"), ("int", 7)],
    "Address": [("dotted-non-ip", "1.2.3"), ("five-octets", "1.2.3.4.5"), ("octet-256", "1.2.3.256"),
                ("colon-non-ip", "12:zz::1"), ("hostname", "host.example.com"), ("int", 5),
                ("bytes", b"\x01\x02\x03\x04")],
    "Time": [("text", "2023-08-25 00:34:12"), ("number", 1700000000.0),
             ("date", datetime.date(2020, 1, 1))],
}
# Time values outside the two-era window: the known finding A2 (see KNOWN_FINDINGS.txt)
TIME_OUT_OF_WINDOW = [
    ("before-window", R.TIME_MIN_UNIX - 1), ("before-window", R.TIME_MIN_UNIX - 86400 * 4),
    ("before-window", -2_000_000_000), ("after-window", R.TIME_MAX_UNIX + 1),
    ("after-window", R.TIME_MAX_UNIX + 86400 * 366), ("after-window", 6_000_000_000),
    ("before-1900", -2_300_000_000), ("after-2172", 6_500_000_000),
]


def check_ood(D: S.Dict, rec: Recorder, known_time: bool):
    from diameter.message.avp import Avp
    lines = []
    for tname, twins in OOD.items():
        entries = D.by_type.get(tname, [])[:3]
        for e in entries:
            for label, val in twins:
                case = {"code": e[0], "vendor": e[1], "type": tname, "ood": label, "value": repr(val)}
                _ood_one(Avp, e, tname, label, val, case, rec)
    t_entries = D.by_type.get("Time", [])[:3]
    for e in t_entries:
        for label, u in TIME_OUT_OF_WINDOW:
            y, mo, d, h, mi, s = R.fields_from_unix(u)
            val = datetime.datetime(y, mo, d, h, mi, s)
            case = {"code": e[0], "vendor": e[1], "type": "Time", "ood": label, "unix": u}
            grp = "out-of-era-window" if label in ("before-window", "after-window") else label
            _ood_one(Avp, e, "Time", grp, val, case, rec)
    return lines


def _ood_one(Avp, e, tname, label, val, case, rec):
    for how in ("new", "setter"):
        try:
            if how == "new":
                a = Avp.new(e[0], e[1], value=val)
            else:
                a = e[5](e[0], e[1])
                a.value = val
        except Exception:
            rec.case(fp("ood", tname, label, how, e[0], e[1]), [f"ood:{tname}:{label}:rejected"])
            continue
        try:
            stored = a.value
        except Exception as ex:
            stored = f"<getter raised {ex!r}>"
        rec.case(fp("ood", tname, label, how, e[0], e[1]), [f"ood:{tname}:{label}:ACCEPTED"])
        rec.violation(f"C01/ood-accepted/{tname}/{label}", dict(case, via=how),
                      f"value outside the domain accepted; stored payload {a.payload!r} reads back as {stored!r}")


# --------------------------------------------------------------------------
# run-time registered definitions (all 13 type classes)
# --------------------------------------------------------------------------
def check_registered(D: S.Dict, rec: Recorder, seed: int, n: int):
    from diameter.message.avp import avp as avpmod
    from diameter.message.avp.dictionary import AVP_DICTIONARY, AVP_VENDOR_DICTIONARY
    types = {
        "OctetString": avpmod.AvpOctetString, "UTF8String": avpmod.AvpUtf8String,
        "Integer32": avpmod.AvpInteger32, "Integer64": avpmod.AvpInteger64,
        "Unsigned32": avpmod.AvpUnsigned32, "Unsigned64": avpmod.AvpUnsigned64,
        "Float32": avpmod.AvpFloat32, "Float64": avpmod.AvpFloat64,
        "Enumerated": avpmod.AvpEnumerated, "Time": avpmod.AvpTime,
        "Address": avpmod.AvpAddress, "Grouped": avpmod.AvpGrouped, "untyped": avpmod.Avp,
    }
    i = 0
    for tname, cls in types.items():
        for vendor in (None, 99999901, 10415):
            for mand in (None, True, False):
                code = 90000000 + i
                i += 1
                # a history: the AVP is first seen while still unknown, then registered, then
                # (for every third definition) first registered with another type and overwritten
                probe = R.enc_avp(code, vendor or 0, 0x40, b"\x00\x00\x00\x01")
                before = avpmod.Avp.from_bytes(probe)
                if type(before) is not avpmod.Avp:
                    rec.violation(f"C01/register/{tname}/known-before-registration", {"code": code, "vendor": vendor},
                                  f"decoded as {type(before).__name__} before any registration")
                if i % 3 == 0:
                    other = avpmod.AvpOctetString if cls is not avpmod.AvpOctetString else avpmod.AvpUnsigned32
                    avpmod.register(avp=code, name=f"Verif-Old-{i}", type_cls=other, vendor=vendor, mandatory=mand)
                    avpmod.Avp.from_bytes(probe)
                    rec.cls("register:overwrite")
                avpmod.register(avp=code, name=f"Verif-{tname}-{i}", type_cls=cls,
                                vendor=vendor, mandatory=mand)
                rec.cls("register:after-first-decode")
                after = avpmod.Avp.from_bytes(probe)
                if type(after) is not cls:
                    rec.violation(f"C01/register/{tname}/stale-type-after-registration", {"code": code, "vendor": vendor},
                                  f"(code {code}, vendor {vendor}) decoded as {type(after).__name__} after registering {cls.__name__}")
                try:
                    Dr = S.Dict()   # sees the new entry
                    S_t = "Integer32" if tname == "Enumerated" else tname
                    key = (code, vendor or 0)
                    if key not in Dr.by_key:
                        rec.violation(f"C01/register/{tname}/not-visible", {"code": code, "vendor": vendor},
                                      "registered definition not returned by the dictionary")
                        continue
                    entry = (code, vendor or 0, S_t, "", mand, cls)

                    def body(a, Dr=Dr, cls=cls):
                        check_spec(Dr, a, rec, cls_expected=cls, origin="registered")
                    strat = S.avp_spec(Dr, depth=0, max_depth=3, max_octets=64,
                                       entry=(code, vendor or 0, S_t), small=True)
                    hyp.run_given(strat, body, n, derive_seed(PID, "reg", seed, i), rec=rec)
                finally:
                    if vendor is None:
                        AVP_DICTIONARY.pop(code, None)
                    else:
                        AVP_VENDOR_DICTIONARY.get(vendor, {}).pop(code, None)
                        if vendor == 99999901 and not AVP_VENDOR_DICTIONARY.get(vendor):
                            AVP_VENDOR_DICTIONARY.pop(vendor, None)
                    R.reset_caches()


def check_usage_history(D: S.Dict, rec: Recorder, seed: int, n: int):
    """The value of a decoded AVP depends on its bytes only, whatever other AVP objects were created and
    modified before: histories of [build an empty Grouped AVP and extend its value in place | decode an
    empty Grouped AVP and extend its value | decode a Grouped AVP and empty its value] followed by the
    ordinary encode/decode checks on fresh specs."""
    from diameter.message.avp import Avp

    def body(t):
        entry, child, specs, ops = t
        code, vendor = entry[0], entry[1]
        empty = {"code": code, "vendor": vendor, "m": None, "p": None, "v": _vs("Grouped", [])}
        for op in ops:
            try:
                kid, _ = L.build_lib_avp(D, child)
                if op == "new-append":
                    g = Avp.new(code, vendor)
                    g.value.append(kid)
                    # the documented idiom ("the value can be operated as a regular list"): what was appended
                    # belongs to the value and therefore to the encoding
                    want_g = S.ref_encode(D, {"code": code, "vendor": vendor, "m": None, "p": None, "v": _vs("Grouped", [child])})
                    if g.as_bytes() != want_g:
                        rec.violation("C01/usage-history/in-place-append-not-encoded", {"entry": [code, vendor]},
                                      f"Avp.new({code}, {vendor}).value.append(child): value has {len(g.value)} member(s), "
                                      f"encoding is {g.as_bytes().hex()[:60]} ({g.length} bytes), expected {len(want_g)} bytes")
                elif op == "new-extend":
                    g = Avp.new(code, vendor)
                    g.value += [kid, kid]
                elif op == "decoded-empty-append":
                    g = Avp.from_bytes(S.ref_encode(D, empty))
                    g.value.append(kid)
                elif op == "decoded-clear" and specs:
                    g = Avp.from_bytes(S.ref_encode(D, specs[0]))
                    g.value.clear()
                elif op == "reassign-header-fields":
                    # vendor id and flags are assigned other values and then the intended ones again: the encoding
                    # must be that of the final values (V set iff the vendor id is non-zero)
                    ref_c = S.ref_encode(D, child)
                    for other_vendor in (99999, 0, 10415):
                        for other_flags in (True, False):
                            kid2, _ = L.build_lib_avp(D, child)
                            want_m, want_p = kid2.is_mandatory, kid2.is_private
                            kid2.vendor_id = other_vendor
                            kid2.is_mandatory, kid2.is_private = other_flags, not other_flags
                            kid2.vendor_id = child["vendor"]
                            kid2.is_mandatory, kid2.is_private = want_m, want_p
                            out2 = kid2.as_bytes()
                            if out2 != ref_c:
                                rec.violation("C01/usage-history/reassigned-header-fields", {"avp": child, "via_vendor": other_vendor},
                                              f"after vendor_id := {other_vendor} := {child['vendor']} the encoding is {out2.hex()[:80]}, expected {ref_c.hex()[:80]}")
            except R.RefError:
                continue
            except Exception as e:
                rec.violation(f"C01/usage-history/{op}/{type(e).__name__}", {"entry": [code, vendor], "op": op}, repr(e))
            rec.cls(f"usage:{op}")
            check_spec(D, empty, rec, origin="after-usage")
            for a in specs:
                check_spec(D, a, rec, origin="after-usage")
    strat = st.sampled_from(D.grouped).flatmap(lambda e: st.tuples(
        st.just(e), S.avp_spec(D, depth=6, max_depth=6, max_octets=16),
        st.lists(S.avp_spec(D, depth=0, max_depth=3, max_octets=16, entry=e), max_size=2),
        st.lists(st.sampled_from(["new-append", "new-extend", "decoded-empty-append", "decoded-clear", "reassign-header-fields"]), min_size=1, max_size=3)))
    hyp.run_given(strat, body, n, derive_seed(PID, "usage", seed), rec=rec)


# --------------------------------------------------------------------------
# shards
# --------------------------------------------------------------------------
def check_concurrent(D: S.Dict, t, rec: Recorder):
    """Two or three threads build and encode grouped AVP trees, and decode them, at the same time: each gets the
    bytes (the decoded tree) it gets when the calls run one after the other - which the sequential parts compare with
    the reference codec."""
    from diameter.message.avp import Avp
    specs, seed, p = t
    refs = []
    for a in specs:
        try:
            refs.append(S.ref_encode(D, a))
        except R.RefError:
            rec.excluded["ref-unencodable"] += 1
            return

    def enc(a):
        lib, _ = L.build_lib_avp(D, a)
        return lib.as_bytes()

    def dec(ref):
        def flat(x):
            v = x.value
            return (x.code, x.vendor_id, x.flags if hasattr(x, "flags") else None,
                    tuple(flat(k) for k in v) if isinstance(v, list) and v and hasattr(v[0], "code") else repr(v))
        return flat(Avp.from_bytes(ref))
    tasks = [lambda a=a: enc(a) for a in specs] + [lambda r=refs[0]: dec(r)]
    conc, seq, taken, errs = CT.concurrent_vs_sequential(tasks, PRISTINE, seed, p, 6)
    case = {"concurrent": specs, "seed": seed, "p": p}
    for i, (c, s_) in enumerate(zip(conc, seq)):
        if c != s_:
            what = "encode" if i < len(specs) else "decode"
            detail = f"thread {i} ({what}): {str(c)[:160]} but sequentially {str(s_)[:160]}"
            rec.violation(f"C01/concurrent/{what}-differs", case, detail + f"; schedule {taken}")
            break
    for e in errs:
        rec.violation("C01/concurrent/thread-error", case, e[:300])
    rec.case(fp("conc", tuple(hash(r) for r in refs), tuple(sorted(taken.items()))) if taken else None,
             ["origin:concurrent", f"concurrent:encoders:{len(specs)}", f"concurrent:switches:{min(len(taken), 6)}"],
             sample=lambda: {"entries": [(a["code"], a["vendor"]) for a in specs], "schedule": {str(i): c for i, c in taken.items()}})


def shard_main(shard, nshards, tier, scale):
    rec = Recorder(PID)
    D = S.Dict()
    thorough = tier == "thorough"

    # part A: exhaustive entries x 9 flags x boundary pool
    mine = D.entries[shard::nshards]
    for e in mine:
        code, vendor, tname = e[0], e[1], e[2]
        if tname == "Grouped":
            kids_pool = [[], [{"code": 1, "vendor": 0, "m": None, "p": None, "v": _vs("UTF8String", "u")}],
                         [{"code": 268, "vendor": 0, "m": True, "p": None, "v": _vs("Unsigned32", 2001)},
                          {"code": 2907, "vendor": 10415, "m": None, "p": True, "v": _vs("Unsigned32", 1)}]]
            kids_pool = [[k for k in ks if (k["code"], k["vendor"]) in D.by_key] for ks in kids_pool]
            values = [_vs("Grouped", ks) for ks in kids_pool]
        else:
            values = [_vs(tname, j) for j in POOL[tname]]
        for (m, p) in FLAG_CHOICES:
            for v in values:
                check_spec(D, {"code": code, "vendor": vendor, "m": m, "p": p, "v": v}, rec,
                           origin="dict-exhaustive")
    rec.extra["entries_enumerated"] = len(mine)

    # part B: random (entry, flags, value) incl. grouped trees
    n_scalar = int((60000 if thorough else 6000) * scale)
    n_tree = int((12000 if thorough else 900) * scale)
    n_wire = int((40000 if thorough else 4000) * scale)

    def body(a):
        check_spec(D, a, rec, origin="dict-random")
    hyp.run_given(S.avp_spec(D, depth=6, max_depth=6, max_octets=4096), body, n_scalar,
                  derive_seed(PID, "scalar", shard), rec=rec)
    hyp.run_given(st.sampled_from(D.grouped).flatmap(
        lambda e: S.avp_spec(D, depth=0, max_depth=6, max_octets=64, entry=e)),
        body, n_tree, derive_seed(PID, "tree", shard), rec=rec)

    def wbody(w):
        check_wire(D, w, rec)
    hyp.run_given(wire_cases(D), wbody, n_wire, derive_seed(PID, "wire", shard), rec=rec)

    if shard == 0:
        check_ood(D, rec, True)
    if shard == 1 % nshards:
        check_registered(D, rec, 0, int((40 if thorough else 6) * scale) or 1)
    # last: these histories modify AVP objects in place, later checks in this process would inherit any damage
    check_usage_history(D, rec, shard, int((1500 if thorough else 120) * scale) or 10)
    # concurrent use (the preemption points slow the codec down)
    info = CT.install_points()
    if shard == 0:
        rec.extra["concurrent_preemption_functions"] = len(info)
    tree = st.sampled_from(D.grouped).flatmap(lambda e: S.avp_spec(D, depth=0, max_depth=4, max_octets=32, entry=e))
    cstrat = st.tuples(st.lists(tree, min_size=2, max_size=3), st.integers(0, 1 << 30), st.sampled_from([0.02, 0.08, 0.3]))
    hyp.run_given(cstrat, lambda t: check_concurrent(D, t, rec), int((1000 if thorough else 150) * scale) or 5,
                  derive_seed(PID, "concurrent", shard), rec=rec)
    from dv import sched as _sched
    _sched.clear()
    return rec.dump()


def run(tier, scale=1.0):
    t0 = time.time()
    rec = Recorder(PID)
    for d in hyp.pool_run(shard_main, (tier, scale)):
        rec.merge(d)
    D = S.Dict()
    total_entries = len(D.entries)
    rec.extra["dictionary_entries"] = total_entries
    required = {f"type:{t}": 1 for t in D.by_type} | {f"len%4:{i}": 1 for i in range(4)} | {
        "origin:concurrent": 1, "concurrent:encoders:3": 1, "concurrent:switches:6": 1, "origin:registered": 1, "origin:after-usage": 1, "usage:new-append": 1, "usage:reassign-header-fields": 1, "usage:decoded-empty-append": 1, "register:after-first-decode": 1, "register:overwrite": 1, "wire:unknown": 1, "wire:vendor-shadow": 1, "time:era1": 1, "time:era0": 1,
        "time:era0-last-hour": 1, "depth:6": 1}
    return finish(rec, tier=tier, level="exploration", rule=RULE, assumptions=ASSUME, t0=t0,
                  exhaustive=False, required_classes=required,
                  extra_cov={"exhaustive_part": f"all {total_entries} dictionary entries x 9 (M,P) choices x fixed boundary pool"})


def replay(doc):
    rec = Recorder(PID)
    D = S.Dict()
    case = doc["case"]
    sig = doc["signature"]
    if "concurrent" in case:
        CT.install_points()
        check_concurrent(D, (case["concurrent"], case["seed"], case["p"]), rec)
    elif "ood" in case:
        check_ood(D, rec, True)
    elif "payload" in case:
        check_wire(D, case, rec)
    else:
        key = (case["code"], case["vendor"])
        if key not in D.by_key:
            print(f"[{PID}] replay: entry {key} not in the dictionary (run-time registered case); re-run the check")
            return 2
        check_spec(D, case, rec)
    if sig in rec.violations:
        print(f"  replayed: {rec.violations[sig]['detail'][:300]}")
        print(f"VIOLATION property={PID} replay={doc.get('_path', '(replay)')}")
        return 1
    print(f"[{PID}] replay: signature {sig} does not reproduce")
    return 0
