"""C03 -- typed command/grouped attributes map 1:1 onto dictionary AVPs and round-trip.

Static part (exhaustive over "programs"): every avp_def entry of every typed
message class and grouped container is cross-checked against the dictionary.
Dynamic part: attribute subsets with type-directed values are encoded; the
bytes are parsed by E1 and compared with what the attribute values demand;
decoding must restore every set attribute; encode-decode-encode == encode.
Untyped commands: received AVPs must appear under their normalised names.
"""
from __future__ import annotations

import dataclasses
import datetime
import inspect
import time

from hypothesis import strategies as st

from dv import hyp, libbuild as L, refcodec as R, strategies as S
from dv.common import HarnessError, derive_seed, fp
from dv.evidence import Recorder, finish
from checks.c02 import all_subclasses
import diameter.message            # noqa: E402,F401  (the codec's module state is recorded before its first use)
import diameter.message.commands   # noqa: E402,F401
from dv import codecthreads as CT

PRISTINE = CT.ModuleState()

PID = "C03"
RULE = ("programs: every typed message class and every grouped container class (discovered "
        "structurally), every avp_def entry statically cross-checked against the dictionary "
        "(exhaustive); inputs: per class {nothing set, each single definition set (exhaustive), "
        "random subsets, all} with type-directed values, list attributes of 0..3 elements, nested "
        "containers to depth 4, undeclared extra AVPs; encode - change attributes - encode again on one "
        "instance vs a fresh instance in the final state; untyped/unknown commands: E1-built messages. "
        "Non-trivial: >= 1 attribute set beyond class pre-sets (typed) / >= 1 AVP (untyped); distinct "
        "by hash of the encoded bytes.")
ASSUME = ["a declared attribute is an avp_def entry; a list attribute holds a list on a fresh instance or is annotated list[...]",
          "values are valid for the dictionary type of the definition; None means unset",
          "extra undeclared AVPs only where the API accepts them (append_avp / additional_avps) and never colliding with a declared (code, vendor)",
          "AVP order between different definitions is not demanded; order within one (code, vendor) is (list order)",
          "definitions that fail the static cross-check are reported once and excluded from the dynamic part so generation continues",
          "reference codec dv/refcodec.py is the trusted oracle"]

MAX_DEPTH = 4


# --------------------------------------------------------------------------
# inventory
# --------------------------------------------------------------------------
class Inv:
    def __init__(self):
        from diameter.message import DefinedMessage
        from diameter.message.avp import grouped
        self.D = S.Dict()
        self.msgs = sorted([k for k in all_subclasses(DefinedMessage) if getattr(k, "avp_def", ())],
                           key=lambda k: k.__name__)
        conts = {}
        for n, c in vars(grouped).items():
            if inspect.isclass(c) and dataclasses.is_dataclass(c) and hasattr(c, "avp_def"):
                conts[c.__name__] = c
        todo = list(self.msgs) + list(conts.values())
        while todo:
            k = todo.pop()
            for d in getattr(k, "avp_def", ()):
                tc = getattr(d, "type_class", None)
                if tc is not None and tc.__name__ not in conts:
                    conts[tc.__name__] = tc
                    todo.append(tc)
        self.conts = dict(sorted(conts.items()))
        self.by_name = {k.__name__: k for k in self.msgs} | self.conts
        self.bad_defs: dict[tuple[str, int], str] = {}   # (class, index) -> reason
        self.bad_classes: dict[str, str] = {}            # class -> reason (excluded from the dynamic part)
        self.info: dict[str, list] = {}

    def annotations(self, k):
        out = {}
        for c in reversed(k.__mro__):
            out.update(getattr(c, "__annotations__", {}))
        return out

    def fresh(self, k):
        return k()

    def defs(self, k):
        """[(index, def, tname, is_list, preset)] for the usable definitions."""
        if k.__name__ in self.info:
            return self.info[k.__name__]
        ann = self.annotations(k)
        inst = self.fresh(k)
        out = []
        for i, d in enumerate(k.avp_def):
            if (k.__name__, i) in self.bad_defs:
                continue
            tname = self.D.tname(d.avp_code, d.vendor_id)
            cur = getattr(inst, d.attr_name, None)
            is_list = isinstance(cur, list) or str(ann.get(d.attr_name, "")).startswith("list[")
            preset = cur if (cur is not None and cur != []) else None
            if preset is not None and not isinstance(preset, (int, str, bytes)):
                self.bad_classes.setdefault(k.__name__, f"{d.attr_name} defaults to {preset!r}")
                preset = None
            out.append((i, d, tname, is_list, preset))
        self.info[k.__name__] = out
        return out


def static_check(inv: Inv, rec: Recorder):
    """Every definition of every class against the dictionary."""
    n = 0
    for k in inv.msgs + list(inv.conts.values()):
        seen_attr, seen_key = {}, {}
        kind = "message" if k in inv.msgs else "container"
        for i, d in enumerate(k.avp_def):
            n += 1
            where = f"{k.__name__}.{getattr(d, 'attr_name', '?')}"
            case = {"class": k.__name__, "index": i, "attr": getattr(d, "attr_name", None),
                    "code": getattr(d, "avp_code", None), "vendor": getattr(d, "vendor_id", None)}
            from diameter.message.avp.generator import AvpGenDef
            if not isinstance(d, AvpGenDef):
                rec.violation(f"C03/static/not-a-definition/{k.__name__}[{i}]", case, repr(d))
                inv.bad_defs[(k.__name__, i)] = "junk"
                continue
            key = (d.avp_code, d.vendor_id)
            ent = inv.D.by_key.get(key)
            if ent is None:
                rec.violation(f"C03/static/no-dictionary-entry/{where}", case,
                              f"({d.avp_code}, vendor {d.vendor_id}) has no dictionary entry")
                inv.bad_defs[(k.__name__, i)] = "no-entry"
            elif d.type_class is not None and ent[0] != "Grouped":
                rec.violation(f"C03/static/container-on-non-grouped/{where}", case,
                              f"attribute has container {d.type_class.__name__} but ({d.avp_code}, {d.vendor_id}) "
                              f"is {ent[1]} of type {ent[0]}")
                inv.bad_defs[(k.__name__, i)] = "not-grouped"
            if d.attr_name in seen_attr:
                rec.violation(f"C03/static/duplicate-attribute/{where}", case,
                              f"attribute defined at indexes {seen_attr[d.attr_name]} and {i}")
                inv.bad_defs[(k.__name__, i)] = "dup-attr"
            elif key in seen_key:
                rec.violation(f"C03/static/duplicate-avp/{where}", case,
                              f"({d.avp_code}, {d.vendor_id}) also denoted by attribute {seen_key[key]}")
                inv.bad_defs[(k.__name__, i)] = "dup-key"
            if ent is not None and ent[0] == "Grouped" and d.type_class is None and (k.__name__, i) not in inv.bad_defs:
                # a Grouped AVP bound to an attribute without a container class:
                # the only encodable value is a list of AVPs, which the generator
                # treats as a multi-valued attribute.  Dedicated probe; excluded
                # from the random part (no documented value domain).
                probe_groupless(inv, k, d, rec, case)
                inv.bad_defs[(k.__name__, i)] = "grouped-without-container"
            seen_attr.setdefault(d.attr_name, i)
            seen_key.setdefault(key, d.attr_name)
            rec.case(fp("static", k.__name__, i), [f"static:{kind}"])
    # attributes the class declares to its users (annotations in the class body) that no definition backs: setting
    # one produces no AVP and a received AVP never reaches it (the repository's own tests/test_annotations.py asserts
    # "annotated => defined", but only walks the direct subclasses of the typed base, not the Request/Answer classes)
    from diameter.message import DefinedMessage
    framework = set()
    for c in DefinedMessage.__mro__:
        framework |= set(getattr(c, "__annotations__", {}))
    framework |= {"avp_def", "additional_avps"}
    n_decl = 0
    for k in inv.msgs + list(inv.conts.values()):
        defined = {getattr(d, "attr_name", None) for d in k.avp_def}
        for a in inv.annotations(k):
            if a in framework or a.startswith("_"):
                continue
            n_decl += 1
            if a not in defined:
                import difflib
                near = difflib.get_close_matches(a, sorted(x for x in defined if x), n=1, cutoff=0.85)
                rec.violation(f"C03/static/declared-without-definition/{k.__name__}.{a}", {"class": k.__name__, "attr": a},
                              f"{k.__name__} declares attribute {a!r} but none of its {len(k.avp_def)} definitions is named so: "
                              f"setting it encodes nothing and no received AVP is assigned to it"
                              + (f" (a definition named {near[0]!r} exists)" if near else ""))
    rec.extra["declared_attributes_checked"] = n_decl
    for k in inv.msgs + list(inv.conts.values()):
        inv.defs(k)
    for cname, why in sorted(inv.bad_classes.items()):
        rec.violation(f"C03/static/bad-default/{cname}", {"class": cname},
                      f"fresh {cname}() has a declared attribute pre-set to a non-value: {why}; an unset attribute is then not absent")
    rec.extra["definitions_checked"] = n
    rec.extra["message_classes"] = len(inv.msgs)
    rec.extra["container_classes"] = len(inv.conts)


def probe_groupless(inv, k, d, rec, case):
    from diameter.message.avp import Avp
    where = f"{k.__name__}.{d.attr_name}"
    kids = [Avp.new(1, 0, value="a"), Avp.new(1, 0, value="b")]
    problems = []
    for label, value in (("list-of-2-avps", kids), ("bytes", b"\x01\x02")):
        obj = k()
        setattr(obj, d.attr_name, value)
        try:
            buf = obj.as_bytes() if hasattr(obj, "as_bytes") else None
            if buf is not None:
                tree = R.parse_message(buf, R.dict_is_grouped)[1]
                n = sum(1 for a in tree if (a.code, a.vendor) == (d.avp_code, d.vendor_id))
                if n != 1:
                    problems.append(f"{label}: {n} AVPs ({d.avp_code},{d.vendor_id}) emitted for one set attribute")
        except Exception as e:
            problems.append(f"{label}: encoding raises {type(e).__name__}")
    if problems:
        rec.violation(f"C03/grouped-without-container/{where}", case,
                      f"({d.avp_code},{d.vendor_id}) is Grouped in the dictionary but the attribute has no container class: "
                      + "; ".join(problems))


# --------------------------------------------------------------------------
# spec generation
# --------------------------------------------------------------------------
@st.composite
def attr_value(draw, inv: Inv, d, tname, is_list, depth, rich):
    def one():
        if d.type_class is not None:
            return {"k": "c", "v": draw(obj_spec(inv, d.type_class, depth + 1, rich=False))}
        if tname == "Grouped":
            kids = [draw(S.avp_spec(inv.D, 1, 3, 32, small=True)) for _ in range(draw(st.integers(0, 2)))]
            return {"k": "g", "v": kids}
        return {"k": "s", "v": draw(S.value_spec(tname, 64 if rich else 24))}
    if is_list:
        n = draw(st.sampled_from([0, 1, 1, 2, 3]))
        return {"k": "l", "v": [one() for _ in range(n)]}
    return one()


@st.composite
def obj_spec(draw, inv: Inv, k, depth=0, mode=None, only=None, rich=True):
    defs = inv.defs(k)
    if depth + 1 >= MAX_DEPTH:
        defs = [x for x in defs if x[1].type_class is None]
    if mode is None:
        mode = draw(st.sampled_from(["subset", "subset", "subset", "all", "none"] if depth == 0
                                    else ["subset", "subset", "few", "few", "all", "none"]))
    chosen = []
    if only is not None:
        chosen = [x for x in defs if x[0] == only]
    elif mode == "all":
        chosen = defs if depth < 2 else defs[:6]
    elif mode == "subset" and defs:
        chosen = draw(st.lists(st.sampled_from(defs), max_size=min(len(defs), 8 if depth else 14),
                               unique_by=lambda x: x[0]))
    elif mode == "few" and defs:
        chosen = draw(st.lists(st.sampled_from(defs), max_size=2, unique_by=lambda x: x[0]))
    attrs = {}
    for (i, d, tname, is_list, preset) in chosen:
        attrs[d.attr_name] = draw(attr_value(inv, d, tname, is_list, depth, rich))
    extra = []
    has_extra_api = depth == 0 and k in inv.msgs or any(
        f.name == "additional_avps" for f in (dataclasses.fields(k) if dataclasses.is_dataclass(k) else ()))
    if has_extra_api and draw(st.integers(0, 3)) == 0:
        declared = {(d.avp_code, d.vendor_id) for d in k.avp_def if hasattr(d, "avp_code")}
        dcodes = sorted({c for c, _ in declared})
        for _ in range(draw(st.integers(1, 2))):
            if dcodes and draw(st.booleans()):
                # same code as a declared attribute under another vendor: must be
                # carried over, not mistaken for the declared AVP
                code = draw(st.sampled_from(dcodes))
                vendor = draw(st.sampled_from([0, 10415, 99999, 13019, 5535]))
                if (code, vendor) in declared:
                    continue
                if (code, vendor) in inv.D.by_key:
                    e = inv.D.by_key[(code, vendor)]
                    a = draw(S.avp_spec(inv.D, 2, 4, 32, small=True, entry=(code, vendor, e[0])))
                else:
                    a = {"code": code, "vendor": vendor, "m": draw(S.MP), "p": None,
                         "v": draw(S.value_spec("untyped", 24))}
            else:
                a = draw(S.avp_spec(inv.D, 2, 4, 32, small=True))
            if (a["code"], a["vendor"]) not in declared:
                extra.append(a)
    return {"cls": k.__name__, "attrs": attrs, "extra": extra}


# --------------------------------------------------------------------------
# build library objects / expected structure
# --------------------------------------------------------------------------
def build_value(inv, d, v):
    if v["k"] == "l":
        return [build_value(inv, d, x) for x in v["v"]]
    if v["k"] == "c":
        return build_obj(inv, v["v"])
    if v["k"] == "g":
        return [L.build_lib_avp(inv.D, a)[0] for a in v["v"]]
    return S.materialize(v["v"])[0]


def build_obj(inv: Inv, spec):
    k = inv.by_name[spec["cls"]]
    obj = k()
    dmap = {d.attr_name: d for (_, d, *_r) in inv.defs(k)}
    for name, v in spec["attrs"].items():
        setattr(obj, name, build_value(inv, dmap[name], v))
    for a in spec["extra"]:
        lib = L.build_lib_avp(inv.D, a)[0]
        if hasattr(obj, "append_avp"):
            obj.append_avp(lib)
        else:
            obj.additional_avps.append(lib)
    return obj


def py_to_ref(tname, v) -> bytes:
    if tname in S.INT_RANGES:
        return R.enc_int(v, S.INT_SIZES[tname], tname.startswith("I"))
    if tname == "UTF8String":
        return v.encode("utf-8")
    if tname == "OctetString":
        return v
    raise HarnessError(f"preset of type {tname} not supported by the oracle")


def expected_flags(inv, d):
    m = d.is_mandatory if d.is_mandatory is not None else inv.D.default_m(d.avp_code, d.vendor_id)
    return (0x40 if m else 0) | (0x80 if d.vendor_id else 0)


def check_encoded(inv: Inv, spec, ravps, rec: Recorder, case, where: str) -> bool:
    """Compare parsed wire AVPs with what the spec's attribute values demand."""
    k = inv.by_name[spec["cls"]]
    ok = True
    by_key: dict = {}
    for a in ravps:
        by_key.setdefault((a.code, a.vendor), []).append(a)
    declared = {}
    for (i, d, tname, is_list, preset) in inv.defs(k):
        declared[(d.avp_code, d.vendor_id)] = (d, tname, is_list, preset)
    for key, (d, tname, is_list, preset) in declared.items():
        v = spec["attrs"].get(d.attr_name)
        wire = by_key.pop(key, [])
        if v is None:
            exp_items = [] if preset is None else [("preset", preset)]
        elif v["k"] == "l":
            exp_items = [("spec", x) for x in v["v"]]
        else:
            exp_items = [("spec", v)]
        if len(wire) != len(exp_items):
            rec.violation(f"C03/encode/count/{'list' if is_list else 'scalar'}", case,
                          f"{where}{k.__name__}.{d.attr_name}: {len(wire)} AVP(s) ({d.avp_code},{d.vendor_id}) on the wire, "
                          f"{len(exp_items)} value(s) set")
            ok = False
            continue
        ef = expected_flags(inv, d)
        for a, (src, x) in zip(wire, exp_items):
            if a.flags != ef:
                rec.violation("C03/encode/flags", case,
                              f"{where}{k.__name__}.{d.attr_name}: flags {a.flags:#x}, expected {ef:#x}")
                ok = False
            if src == "preset":
                if a.data != py_to_ref(tname, x):
                    rec.violation("C03/encode/preset-payload", case, f"{where}{k.__name__}.{d.attr_name}")
                    ok = False
            elif x["k"] == "c":
                try:
                    kids = R.parse_tree(a.data, R.dict_is_grouped, lenient=True)
                except R.RefError as e:
                    rec.violation("C03/encode/container-malformed", case, f"{where}{k.__name__}.{d.attr_name}: {e}")
                    ok = False
                    continue
                ok &= check_encoded(inv, x["v"], kids, rec, case, f"{where}{d.attr_name}.")
            elif x["k"] == "g":
                if a.data != b"".join(S.ref_encode(inv.D, c) for c in x["v"]):
                    rec.violation("C03/encode/grouped-payload", case, f"{where}{k.__name__}.{d.attr_name}")
                    ok = False
            else:
                ref = S.materialize(x["v"])[1]
                if a.data != ref:
                    rec.violation(f"C03/encode/payload/{tname}", case,
                                  f"{where}{k.__name__}.{d.attr_name}: {a.data.hex()[:60]} != {ref.hex()[:60]}")
                    ok = False
    # what remains must be exactly the undeclared extras, unchanged and in order
    rest = [a for a in ravps if (a.code, a.vendor) in by_key]
    exp_extra = [S.ref_encode(inv.D, a) for a in spec["extra"]]
    got_extra = [R.enc_avp(a.code, a.vendor, a.flags, a.data) for a in rest]
    if got_extra != exp_extra:
        rec.violation("C03/encode/undeclared-avps", case,
                      f"{where}{k.__name__}: {len(got_extra)} undeclared AVP(s) on the wire, {len(exp_extra)} appended")
        ok = False
    return ok


def check_decoded(inv: Inv, spec, obj, rec: Recorder, case, where: str) -> bool:
    k = inv.by_name[spec["cls"]]
    ok = True
    if type(obj) is not k:
        rec.violation("C03/decode/class", case, f"{where}: {type(obj).__name__} != {k.__name__}")
        return False
    for (i, d, tname, is_list, preset) in inv.defs(k):
        v = spec["attrs"].get(d.attr_name)
        try:
            got = getattr(obj, d.attr_name)
        except AttributeError:
            got = None
        label = f"{where}{k.__name__}.{d.attr_name}"
        if v is None:
            if preset is not None:
                if got != preset:
                    rec.violation("C03/decode/preset", case, f"{label}: {got!r} != {preset!r}")
                    ok = False
            elif not (got is None or got == []):
                rec.violation("C03/decode/unset-not-empty", case, f"{label}: unset attribute decodes as {got!r}"[:300])
                ok = False
            continue
        if v["k"] == "l":
            if not v["v"]:
                if not (got is None or got == []):
                    rec.violation("C03/decode/unset-not-empty", case, f"{label}: {got!r}"[:300])
                    ok = False
                continue
            if not isinstance(got, list) or len(got) != len(v["v"]):
                n = len(got) if isinstance(got, list) else "a non-list"
                rec.violation("C03/decode/list-not-restored", case,
                              f"{label}: {len(v['v'])} element(s) set, decoded {n}")
                ok = False
                continue
            pairs = list(zip(v["v"], got))
        else:
            if isinstance(got, list) and not is_list and v["k"] != "g":
                rec.violation("C03/decode/scalar-became-list", case, f"{label}")
                ok = False
                continue
            pairs = [(v, got)]
        for x, g in pairs:
            if x["k"] == "c":
                ok &= check_decoded(inv, x["v"], g, rec, case, f"{where}{d.attr_name}.")
            elif x["k"] == "g":
                exp = [S.ref_encode(inv.D, c) for c in x["v"]]
                try:
                    gotb = [c.as_bytes() for c in g]
                except Exception as e:
                    gotb = repr(e)
                if gotb != exp:
                    rec.violation("C03/decode/grouped-value", case, f"{label}")
                    ok = False
            else:
                m = L.value_matches(x["v"], g)
                if m:
                    rec.violation(f"C03/decode/value/{tname}", case, f"{label}: {m}")
                    ok = False
    return ok


def uses_bad_class(inv, spec) -> bool:
    if spec["cls"] in inv.bad_classes:
        return True
    for v in spec["attrs"].values():
        for x in (v["v"] if v["k"] == "l" else [v]):
            if x["k"] == "c" and uses_bad_class(inv, x["v"]):
                return True
    return False


def check_typed(inv: Inv, spec, rec: Recorder, mode: str):
    from diameter.message import Message
    k = inv.by_name[spec["cls"]]
    if uses_bad_class(inv, spec):
        rec.excluded["class-with-static-finding"] += 1
        return
    case = spec
    is_msg = k in inv.msgs
    try:
        obj = build_obj(inv, spec)
        if is_msg:
            obj.header.hop_by_hop_identifier, obj.header.end_to_end_identifier = 0x11223344, 0x55667788
            buf = obj.as_bytes()
        else:
            from diameter.message.avp.generator import generate_avps_from_defs
            buf = b"".join(a.as_bytes() for a in generate_avps_from_defs(obj))
    except Exception as e:
        rec.violation(f"C03/encode-raises/{type(e).__name__}", case, f"{k.__name__}: {e!r}"[:400])
        return
    try:
        tree = R.parse_message(buf, R.dict_is_grouped)[1] if is_msg else R.parse_tree(buf, R.dict_is_grouped)
    except R.RefError as e:
        rec.violation("C03/encode/malformed", case, f"{k.__name__}: {e}")
        return
    check_encoded(inv, spec, tree, rec, case, "")

    # decode
    try:
        if is_msg:
            dec = Message.from_bytes(buf)
        else:
            from diameter.message.avp import Avp
            from diameter.message.commands._attributes import assign_attr_from_defs
            from diameter.message.packer import Unpacker
            up = Unpacker(buf)
            avps = []
            while not up.is_done():
                avps.append(Avp.from_unpacker(up))
            dec = k()
            assign_attr_from_defs(dec, avps)
    except Exception as e:
        rec.violation(f"C03/decode-raises/{type(e).__name__}", case, f"{k.__name__}: {e!r}"[:400])
        return
    check_decoded(inv, spec, dec, rec, case, "")
    try:
        if is_msg:
            again = dec.as_bytes()
        else:
            from diameter.message.avp.generator import generate_avps_from_defs
            again = b"".join(a.as_bytes() for a in generate_avps_from_defs(dec))
        if again != buf:
            rec.violation("C03/encode-decode-encode", case,
                          f"{k.__name__}: re-encoded {len(again)} bytes != first encoding {len(buf)} bytes")
    except Exception as e:
        rec.violation(f"C03/reencode-raises/{type(e).__name__}", case, f"{k.__name__}: {e!r}"[:400])
    nt = fp(hash(buf)) if spec["attrs"] else None
    rec.case(nt, [f"mode:{mode}", "kind:message" if is_msg else "kind:container"] +
             (["with-extra"] if spec["extra"] else []) +
             (["extra-code-collision"] if {a["code"] for a in spec["extra"]} & {d.avp_code for d in k.avp_def if hasattr(d, "avp_code")} else []) +
             ([f"nest:{spec_nest(spec)}"]),
             sample=lambda: {"spec": spec, "wire": buf.hex()[:200]})
    for name in spec["attrs"]:
        rec.extra.setdefault("_defs", set()).add((k.__name__, name))


def check_reencode_after_change(inv: Inv, spec_a, spec_b, rec: Recorder):
    """A typed message is encoded (and read), then changed, then encoded again: the second
    encoding must be what a fresh instance in the final state encodes to."""
    k = inv.by_name[spec_a["cls"]]
    if k not in inv.msgs or uses_bad_class(inv, spec_a) or uses_bad_class(inv, spec_b):
        return
    case = {"cls": spec_a["cls"], "first": spec_a, "then": spec_b}
    try:
        obj = build_obj(inv, spec_a)
        obj.header.hop_by_hop_identifier, obj.header.end_to_end_identifier = 0x11223344, 0x55667788
        obj.as_bytes()
        _ = obj.avps
        obj.find_avps((263, 0))
        dmap = {d.attr_name: (d, is_list, preset) for (_, d, _t, is_list, preset) in inv.defs(k)}
        for name in spec_a["attrs"]:
            if name not in spec_b["attrs"]:
                # back to the state of a fresh instance (class pre-set, empty list or unset)
                setattr(obj, name, dmap[name][2] if dmap[name][2] is not None else ([] if dmap[name][1] else None))
        for name, v in spec_b["attrs"].items():
            setattr(obj, name, build_value(inv, dmap[name][0], v))
        for a in spec_b["extra"]:
            obj.append_avp(L.build_lib_avp(inv.D, a)[0])
        got = obj.as_bytes()
        final = {"cls": spec_a["cls"], "attrs": spec_b["attrs"], "extra": spec_a["extra"] + spec_b["extra"]}
        fresh = build_obj(inv, final)
        fresh.header.hop_by_hop_identifier, fresh.header.end_to_end_identifier = 0x11223344, 0x55667788
        want = fresh.as_bytes()
    except Exception as e:
        rec.violation(f"C03/change-after-encode/raises/{type(e).__name__}", case, repr(e)[:300])
        return
    if got != want:
        rec.violation("C03/change-after-encode/stale-encoding", case,
                      f"{k.__name__}: after encoding once and changing attributes the message encodes to {len(got)} bytes, "
                      f"a fresh message in the same state to {len(want)} bytes")
    rec.case(fp("hist", hash(got), hash(want)) if spec_b["attrs"] else None, ["mode:change-after-encode"],
             sample=lambda: {"class": spec_a["cls"], "first_attrs": sorted(spec_a["attrs"]), "then_attrs": sorted(spec_b["attrs"])})


def check_encode_after_failed_encode(inv: Inv, spec_a, spec_b, rec: Recorder):
    """An encode that fails half-way (an appended AVP that cannot be packed) must not influence the encoding of any
    other message: B encodes to the same bytes before and after the failed encode of A."""
    from diameter.message.avp import Avp
    ka, kb = inv.by_name[spec_a["cls"]], inv.by_name[spec_b["cls"]]
    if ka not in inv.msgs or kb not in inv.msgs or uses_bad_class(inv, spec_a) or uses_bad_class(inv, spec_b):
        return
    case = {"failing": spec_a, "then": spec_b}
    try:
        b = build_obj(inv, spec_b)
        before = b.as_bytes()
        a = build_obj(inv, spec_a)
        bad = Avp(code=70001, vendor_id=0)
        bad.payload = "not-bytes"              # packing this raises after the earlier AVPs have been packed
        a.append_avp(bad)
        failed = False
        try:
            a.as_bytes()
        except Exception:
            failed = True
        after = build_obj(inv, spec_b).as_bytes()
        again = b.as_bytes()
    except Exception as e:
        rec.violation(f"C03/encode-after-failed-encode/raises/{type(e).__name__}", case, repr(e)[:300])
        return
    if after != before or again != before:
        rec.violation("C03/encode-after-failed-encode/differs", case,
                      f"{kb.__name__} encodes to {len(before)} bytes, after a failed encode of {ka.__name__} to {len(after)} / {len(again)} bytes")
    rec.case(fp("fail", hash(before)) if failed and spec_b["attrs"] else None,
             ["mode:encode-after-failed-encode"] + (["failed-encode:raised"] if failed else []),
             sample=lambda: {"failing": spec_a["cls"], "then": spec_b["cls"]})


def spec_nest(spec) -> int:
    d = 1
    for v in spec["attrs"].values():
        items = v["v"] if v["k"] == "l" else [v]
        for x in items:
            if x["k"] == "c":
                d = max(d, 1 + spec_nest(x["v"]))
    return d


# --------------------------------------------------------------------------
# untyped / unknown commands
# --------------------------------------------------------------------------
def norm(name: str) -> str:
    return name.replace("-", "_").lower()


def expected_attrs(inv, ravps):
    """name -> value | list, in wire order; groups recurse."""
    out: dict = {}
    for a in ravps:
        e = inv.D.by_key.get((a.code, a.vendor))
        nm = norm(e[1]) if e else "unknown"
        val = ("G", expected_attrs(inv, a.children)) if a.children is not None else ("S", a)
        if nm in out:
            if not isinstance(out[nm], list):
                out[nm] = [out[nm]]
            out[nm].append(val)
        else:
            out[nm] = val
    return out


def attrs_match(inv, exp, obj, path="") -> str | None:
    from diameter.message.avp import Avp
    for nm, ev in exp.items():
        if not hasattr(obj, nm):
            return f"{path}{nm}: attribute missing"
        got = getattr(obj, nm)
        evs = ev if isinstance(ev, list) else [ev]
        if isinstance(ev, list):
            if not isinstance(got, list) or len(got) != len(ev):
                return f"{path}{nm}: repeated AVP x{len(ev)} but attribute is {type(got).__name__} of len {len(got) if isinstance(got, list) else '-'}"
            gots = got
        else:
            gots = [got]
        for (kind, x), g in zip(evs, gots):
            if kind == "G":
                if type(g).__name__ != "UndefinedGroupedAvp":
                    return f"{path}{nm}: grouped AVP exposed as {type(g).__name__}"
                m = attrs_match(inv, x, g, f"{path}{nm}.")
                if m:
                    return m
            else:
                want = Avp.from_bytes(R.enc_avp(x.code, x.vendor, x.flags, x.data)).value
                same = (g == want) or (g != g and want != want)
                if not same:
                    return f"{path}{nm}: value {g!r} != {want!r}"[:300]
    extra = [n for n in vars(obj) if not n.startswith("_") and n not in exp and n not in ("header",)]
    if extra:
        return f"{path}: unexpected attributes {extra[:5]}"
    return None


def check_untyped(inv, ms, rec: Recorder):
    from diameter.message import Message
    body = b"".join(S.ref_encode(inv.D, a) for a in ms["avps"])
    buf = R.enc_message(1, ms["flags"], ms["code"], ms["app"], ms["hbh"], ms["e2e"], body)
    tree = R.parse_message(buf, R.dict_is_grouped)[1]
    try:
        msg = Message.from_bytes(buf)
    except Exception as e:
        rec.violation(f"C03/untyped/decode-raises/{type(e).__name__}", ms, repr(e)[:300])
        return
    m = attrs_match(inv, expected_attrs(inv, tree), msg)
    if m:
        kind = "repeat" if "repeated" in m else "group" if "grouped" in m else "missing" if "missing" in m else "value"
        rec.violation(f"C03/untyped/{kind}", ms, m)
    rec.case(fp("u", hash(buf)) if tree else None,
             ["kind:untyped", "untyped:repeat" if len({(a.code, a.vendor) for a in tree}) < len(tree) else "untyped:norepeat",
              "untyped:grouped" if any(a.children for a in tree) else "untyped:flat"],
             sample=lambda: {"untyped": {k: v for k, v in ms.items() if k != "avps"}, "wire": buf.hex()[:160]})


@st.composite
def untyped_message(draw, inv, codes):
    from checks.c02 import header_ids
    code = draw(st.sampled_from(codes))
    n = draw(st.integers(0, 10))
    avps = []
    for _ in range(n):
        if avps and draw(st.integers(0, 2)) == 0:
            base = draw(st.sampled_from(avps))
            if draw(st.booleans()):
                avps.append(base)
            else:   # same AVP, another value
                avps.append(draw(S.avp_spec(inv.D, 0, 3, 32, small=True,
                                            entry=(base["code"], base["vendor"], base["v"]["t"]))))
        else:
            avps.append(draw(S.avp_spec(inv.D, 0, 4, 48, small=True)))
    return {"flags": draw(st.sampled_from([0x80, 0x00, 0xc0, 0x40])), "code": code,
            "app": draw(header_ids()), "hbh": draw(header_ids()), "e2e": draw(header_ids()), "avps": avps}


# --------------------------------------------------------------------------
def _enc_tree(avps):
    return b"".join(R.enc_avp(a.code, a.vendor, a.flags & ~0x80 if not a.vendor else a.flags,
                              a.data if a.children is None else _enc_tree(a.children)) for a in avps)


def check_undeclared_member_carried(inv: Inv, spec, which, rec: Recorder):
    """A received message carries, inside one of its grouped AVPs, a member the container class does not declare
    (a vendor extension, say): decoding and encoding again must carry it over unchanged - whether or not the
    container class happens to declare room for such AVPs."""
    from diameter.message import Message
    k = inv.by_name[spec["cls"]]
    if uses_bad_class(inv, spec):
        rec.excluded["class-with-static-finding"] += 1
        return
    try:
        obj = build_obj(inv, spec)
        obj.header.hop_by_hop_identifier, obj.header.end_to_end_identifier = 0x11223344, 0x55667788
        buf = obj.as_bytes()
        hdr, tree = R.parse_message(buf, R.dict_is_grouped)
    except Exception:
        rec.excluded["undeclared-member:sequential-encode-raises"] += 1
        return
    declared = {(d.avp_code, d.vendor_id): d for d in k.avp_def if hasattr(d, "avp_code")}
    groups = []

    def collect(avps, defs):
        for a in avps:
            d = defs.get((a.code, a.vendor))
            if a.children is not None and d is not None and getattr(d, "type_class", None) is not None:
                groups.append((a, d.type_class))
                collect(a.children, {(x.avp_code, x.vendor_id): x for x in d.type_class.avp_def if hasattr(x, "avp_code")})
    collect(tree, declared)
    if not groups:
        rec.case(None, ["undeclared-member:no-container-set"])
        return
    target, tclass = groups[which % len(groups)]
    extra = R.parse_avps(R.enc_avp(16777000 + which % 7, 0, 0x00, b"ext" + bytes([which % 256])))[0]
    target.children.append(extra)
    wire = R.enc_message(hdr["version"], hdr["flags"], hdr["code"], hdr["app_id"], hdr["hbh"], hdr["e2e"], _enc_tree(tree))
    case = {"undeclared_member": True, "spec": spec, "which": which}
    try:
        again = Message.from_bytes(wire).as_bytes()
    except Exception as e:
        rec.violation(f"C03/undeclared-member/raises/{type(e).__name__}", case, f"{k.__name__}: {e!r}"[:300])
        return
    has_room = "additional_avps" in {f.name for f in dataclasses.fields(tclass)} if dataclasses.is_dataclass(tclass) else hasattr(tclass, "additional_avps")
    if again != wire:
        rec.violation("C03/undeclared-member/dropped" if len(again) < len(wire) else "C03/undeclared-member/changed", case,
                      f"{k.__name__}: a member that {tclass.__name__} does not declare, received inside that grouped AVP, is "
                      f"not carried over: {len(wire)} bytes received, {len(again)} bytes after decode + encode "
                      f"({tclass.__name__} {'has' if has_room else 'has no'} additional_avps field)")
    rec.case(fp("um", hash(wire)), ["mode:undeclared-member", f"undeclared-member:container-has-room:{has_room}",
                                    f"undeclared-member:depth:{min(target.depth, 3)}"],
             sample=lambda: {"class": k.__name__, "container": tclass.__name__, "wire": wire.hex()[:160]})


def check_shared_container_objects(inv: Inv, spec, rec: Recorder):
    """One container object used for several elements of a list attribute, or for the same-typed attribute of two
    sibling containers (p = ProxyInfo(...); msg.proxy_info = [p, p]): the message encodes exactly like the one built
    from equal but distinct objects."""
    import copy
    k = inv.by_name[spec["cls"]]
    if uses_bad_class(inv, spec) or k not in inv.msgs:
        rec.excluded["class-with-static-finding"] += 1
        return
    spec2 = copy.deepcopy(spec)
    lists = [name for name, v in spec2["attrs"].items()
             if v["k"] == "l" and len(v["v"]) >= 2 and all(x["k"] == "c" for x in v["v"])]
    for name in lists:
        v = spec2["attrs"][name]
        v["v"] = [copy.deepcopy(v["v"][0]) for _ in v["v"]]
    try:
        plain = build_obj(inv, spec2)
        shared = build_obj(inv, spec2)
        for o in (plain, shared):
            o.header.hop_by_hop_identifier, o.header.end_to_end_identifier = 0x11223344, 0x55667788
        n_shared = 0
        for name in lists:
            lst = getattr(shared, name)
            for i in range(1, len(lst)):
                lst[i] = lst[0]
                n_shared += 1
        want = plain.as_bytes()
        got = shared.as_bytes()
    except Exception as e:
        rec.violation(f"C03/shared-object/raises/{type(e).__name__}", {"shared_objects": True, "spec": spec}, f"{k.__name__}: {e!r}"[:300])
        return
    if got != want:
        rec.violation("C03/shared-object/encoding-differs", {"shared_objects": True, "spec": spec},
                      f"{k.__name__}: with one object in {n_shared + len(lists)} slots of {lists} the message has {len(got)} bytes, "
                      f"with equal distinct objects {len(want)} bytes")
    rec.case(fp("shared", hash(want)) if n_shared else None, ["mode:shared-container-object" if n_shared else "mode:shared-container-object:none"],
             sample=lambda: {"class": k.__name__, "lists": lists})


def check_concurrent(inv: Inv, t, rec: Recorder):
    """Typed messages are decoded (and one is built and encoded) by two or three threads at once, from the module
    state of a fresh process: every thread's result is the one it gets when the same calls run one after the other."""
    from diameter.message import Message
    spec_a, spec_b, same, seed, p = t
    if same:
        spec_b = spec_a
    if uses_bad_class(inv, spec_a) or uses_bad_class(inv, spec_b):
        rec.excluded["class-with-static-finding"] += 1
        return
    case = {"concurrent": True, "a": spec_a, "b": spec_b, "seed": seed, "p": p}
    try:
        bufs = []
        for sp in (spec_a, spec_b):
            o = build_obj(inv, sp)
            o.header.hop_by_hop_identifier, o.header.end_to_end_identifier = 0x11223344, 0x55667788
            bufs.append(o.as_bytes())
    except Exception:
        rec.excluded["concurrent:sequential-encode-raises"] += 1      # reported by the sequential part
        return

    def decode(buf, k):
        m = Message.from_bytes(buf)
        shape = tuple((d.attr_name, type(getattr(m, d.attr_name, None)).__name__,
                       len(getattr(m, d.attr_name)) if isinstance(getattr(m, d.attr_name, None), (list, bytes, str)) else -1)
                      for (_, d, *_r) in inv.defs(k) if hasattr(d, "attr_name"))
        return type(m).__name__, shape, m.as_bytes()

    def build():
        o = build_obj(inv, spec_a)
        o.header.hop_by_hop_identifier, o.header.end_to_end_identifier = 0x11223344, 0x55667788
        return o.as_bytes()
    tasks = [lambda: decode(bufs[0], inv.by_name[spec_a["cls"]]), lambda: decode(bufs[1], inv.by_name[spec_b["cls"]])]
    if seed % 3 == 0:
        tasks.append(build)
    conc, seq, taken, errs = CT.concurrent_vs_sequential(tasks, PRISTINE, seed, p, 6)
    for i, (c, s_) in enumerate(zip(conc, seq)):
        if c != s_:
            what = "decode" if i < 2 else "build"
            if c[0] != "ok":
                kind = f"{what}-fails/{c[1]}"
                detail = f"thread {i}: {c} where the sequential call gives {s_[0]}"
            elif s_[0] != "ok":
                kind, detail = f"{what}-differs", f"thread {i}: succeeds where the sequential call raises {s_[1]}"
            elif what == "decode" and c[1][:2] != s_[1][:2]:
                diff = [(x, y) for x, y in zip(c[1][1], s_[1][1]) if x != y][:3]
                kind, detail = "decode-differs/attributes", f"thread {i} ({c[1][0]}): attributes (name, type, length) {diff} (concurrent, sequential)"
            else:
                a_, b_ = (c[1][2], s_[1][2]) if what == "decode" else (c[1], s_[1])
                kind, detail = f"{what}-differs/bytes", f"thread {i}: re-encodes to {len(a_)} bytes, sequentially {len(b_)} bytes"
            rec.violation(f"C03/concurrent/{kind}", case, detail + f"; schedule {taken}")
            break
    for e in errs:
        rec.violation("C03/concurrent/thread-error", case, e[:300])
    rec.case(fp("conc", hash(bufs[0]), hash(bufs[1]), tuple(sorted(taken.items()))) if taken else None,
             ["mode:concurrent", f"concurrent:same-class:{spec_a['cls'] == spec_b['cls']}", f"concurrent:tasks:{len(tasks)}",
              f"concurrent:switches:{min(len(taken), 6)}"],
             sample=lambda: {"classes": [spec_a["cls"], spec_b["cls"]], "schedule": {str(i): c for i, c in taken.items()}})


def shard_main(shard, nshards, tier, scale):
    from diameter.message import DefinedMessage
    from diameter.message.commands import all_commands
    rec = Recorder(PID)
    inv = Inv()
    quiet = Recorder(PID)
    static_check(inv, rec if shard == 0 else quiet)
    thorough = tier == "thorough"
    classes = inv.msgs + list(inv.conts.values())

    # exhaustive: nothing set, and each single definition set
    jobs = []
    for k in classes:
        jobs.append((k, "none", None))
        for (i, d, *_r) in inv.defs(k):
            jobs.append((k, "single", i))
    mine = jobs[shard::nshards]
    reps = 2 if thorough else 1
    for j, (k, mode, only) in enumerate(mine):
        def body(spec, mode=mode):
            check_typed(inv, spec, rec, mode)
        hyp.run_given(obj_spec(inv, k, 0, mode=mode, only=only), body, reps if mode == "single" else 1,
                      derive_seed(PID, "single", k.__name__, only), rec=rec)
    rec.extra["single_definition_jobs"] = len(mine)

    # random subsets / all
    n_rand = int((20000 if thorough else 1300) * scale)
    strat = st.sampled_from(classes).flatmap(lambda k: obj_spec(inv, k, 0))

    def rbody(spec):
        mode = "all" if len(spec["attrs"]) >= len(inv.defs(inv.by_name[spec["cls"]])) and spec["attrs"] else \
            "none" if not spec["attrs"] else "subset"
        check_typed(inv, spec, rec, mode)
    hyp.run_given(strat, rbody, n_rand, derive_seed(PID, "rand", shard), rec=rec)
    n_all = int((3000 if thorough else 200) * scale)
    hyp.run_given(st.sampled_from(classes).flatmap(lambda k: obj_spec(inv, k, 0, mode="all")),
                  lambda s: check_typed(inv, s, rec, "all"), n_all, derive_seed(PID, "all", shard), rec=rec)

    # encode, change, encode again (same instance)
    n_hist = int((6000 if thorough else 400) * scale)
    msgs_only = inv.msgs
    hstrat = st.sampled_from(msgs_only).flatmap(lambda k: st.tuples(obj_spec(inv, k, 0), obj_spec(inv, k, 0)))
    hyp.run_given(hstrat, lambda ab: check_reencode_after_change(inv, ab[0], ab[1], rec), n_hist,
                  derive_seed(PID, "hist", shard), rec=rec)

    # a failed encode of one message, then the encoding of another one
    fstrat = st.tuples(st.sampled_from(msgs_only).flatmap(lambda k: obj_spec(inv, k, 0)),
                       st.sampled_from(msgs_only).flatmap(lambda k: obj_spec(inv, k, 0)))
    hyp.run_given(fstrat, lambda ab: check_encode_after_failed_encode(inv, ab[0], ab[1], rec),
                  int((2000 if thorough else 150) * scale), derive_seed(PID, "failenc", shard), rec=rec)

    # untyped / unknown commands
    codes = [c for c, k in all_commands.items() if not issubclass(k, DefinedMessage)] + [1, 999, 16000009]
    n_un = int((8000 if thorough else 500) * scale)
    hyp.run_given(untyped_message(inv, codes), lambda ms: check_untyped(inv, ms, rec), n_un,
                  derive_seed(PID, "untyped", shard), rec=rec)
    # one container object in several slots of a message
    hyp.run_given(st.sampled_from(msgs_only).flatmap(lambda k: obj_spec(inv, k, 0, mode="all")),
                  lambda sp: check_shared_container_objects(inv, sp, rec), int((3000 if thorough else 250) * scale),
                  derive_seed(PID, "shared-objects", shard), rec=rec)

    # undeclared members inside grouped AVPs of received messages
    ustrat = st.tuples(st.sampled_from(msgs_only).flatmap(lambda k: obj_spec(inv, k, 0, mode="all")), st.integers(0, 50))
    hyp.run_given(ustrat, lambda t: check_undeclared_member_carried(inv, t[0], t[1], rec),
                  int((4000 if thorough else 300) * scale), derive_seed(PID, "undeclared-member", shard), rec=rec)

    # concurrent use (last: the preemption points slow the codec down)
    info = CT.install_points()
    if shard == 0:
        rec.extra["concurrent_preemption_functions"] = len(info)
    cstrat = st.tuples(st.sampled_from(msgs_only).flatmap(lambda k: obj_spec(inv, k, 0)),
                       st.sampled_from(msgs_only).flatmap(lambda k: obj_spec(inv, k, 0)),
                       st.booleans(), st.integers(0, 1 << 30), st.sampled_from([0.02, 0.08, 0.3]))
    hyp.run_given(cstrat, lambda t: check_concurrent(inv, t, rec), int((1000 if thorough else 200) * scale),
                  derive_seed(PID, "concurrent", shard), rec=rec)
    from dv import sched as _sched
    _sched.clear()
    d = rec.dump()
    d["extra"]["_defs"] = sorted(rec.extra.get("_defs", set()))
    return d


def run(tier, scale=1.0):
    t0 = time.time()
    rec = Recorder(PID)
    covered = set()
    for d in hyp.pool_run(shard_main, (tier, scale)):
        covered |= {tuple(x) for x in d["extra"].pop("_defs", [])}
        rec.merge(d)
    rec.extra.pop("_defs", None)
    inv = Inv()
    static_check(inv, Recorder(PID))
    total = {(k.__name__, d.attr_name) for k in inv.msgs + list(inv.conts.values())
             for (_, d, *_r) in inv.defs(k)}
    missing = sorted(total - covered)
    rec.extra["definitions_usable"] = len(total)
    rec.extra["definitions_individually_encoded_and_decoded"] = len(total & covered)
    rec.extra["definitions_excluded_by_static_findings"] = len(inv.bad_defs)
    if missing:
        rec.extra["definitions_not_covered"] = [".".join(m) for m in missing[:20]]
    required = {"mode:shared-container-object": 1, "mode:undeclared-member": 1, "undeclared-member:container-has-room:False": 1, "undeclared-member:container-has-room:True": 1, "mode:concurrent": 1, "concurrent:same-class:True": 1, "concurrent:tasks:3": 1, "concurrent:switches:6": 1, "mode:encode-after-failed-encode": 1, "failed-encode:raised": 1, "mode:change-after-encode": 1, "mode:single": 1, "mode:subset": 1, "mode:all": 1, "mode:none": 1, "kind:container": 1,
                "kind:message": 1, "kind:untyped": 1, "with-extra": 1, "extra-code-collision": 1, "nest:4": 1,
                "untyped:repeat": 1, "untyped:grouped": 1}
    rc = finish(rec, tier=tier, level="exploration", rule=RULE, assumptions=ASSUME, t0=t0,
                required_classes=required,
                extra_cov={"exhaustive_part": "static cross-check of every definition; every usable definition individually set, encoded and decoded at least once"})
    if rc == 0 and missing:
        print(f"[{PID}] harness: {len(missing)} definitions never exercised individually: {missing[:5]}")
        return 2
    return rc


def replay(doc):
    rec = Recorder(PID)
    inv = Inv()
    static_check(inv, rec)
    case = doc["case"]
    if case.get("shared_objects"):
        check_shared_container_objects(inv, case["spec"], rec)
    elif case.get("undeclared_member"):
        check_undeclared_member_carried(inv, case["spec"], case["which"], rec)
    elif case.get("concurrent"):
        CT.install_points()
        check_concurrent(inv, (case["a"], case["b"], False, case["seed"], case["p"]), rec)
    elif "cls" in case:
        check_typed(inv, case, rec, "replay")
    elif "avps" in case:
        check_untyped(inv, case, rec)
    if doc["signature"] in rec.violations:
        print(f"  replayed: {rec.violations[doc['signature']]['detail'][:300]}")
        print(f"VIOLATION property={PID} replay=(replay)")
        return 1
    print(f"[{PID}] replay: signature does not reproduce")
    return 0
