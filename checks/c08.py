"""C08 -- requests reach exactly the matching application, else the specified error.

Every typed application request class x every subset of its required scalar
AVPs removed (exhaustive), crossed (Hypothesis) with application id
{registered, unregistered} x realm {own, additional, peer's, foreign} x sender
{configured for the app, known but not configured} x 1..3 applications, with
base-protocol traffic interleaved.  Reference model: the expected disposition
(deliver to application X | 5005 + Failed-AVP | 3003 | 3007 | 5012) computed
from the configuration alone.
"""
from __future__ import annotations

import itertools
import time

from hypothesis import strategies as st

from dv import hyp, refcodec as R, strategies as S, world as W
from dv.common import derive_seed
from dv.evidence import Recorder, finish
from checks.nodecommon import Result, record, generic_replay
from checks import c03

PID = "C08"
RULE = ("exhaustive: every typed application request class x every subset (<= 2^6, all singletons and the "
        "full set always) of its required scalar attributes removed, sent by a configured peer in the own "
        "realm; Hypothesis: class x removed subset x application id {registered, other registered, "
        "unregistered} x realm {own, additional, foreign} x sender {configured, known-not-configured} x "
        "3 application layouts x handler {answer, raise} x basic/threading x DWR/DWA interleaved. "
        "Non-trivial: anything but the fully valid, matching request, or >= 2 applications competing; "
        "distinct by case.")
ASSUME = ["required-AVP validation is on (default configuration)",
          "realms are used in exactly the spelling they were configured with (also mixed case)",
          "when two error conditions hold at once either result code is accepted (the statement fixes no priority)",
          "unknown peers cannot reach a ready connection (3010 at the handshake) and are therefore not senders",
          "a request class without a Destination-Realm definition cannot match an application (3007 accepted)",
          "typed requests are encoded with the library's own encoder (its correctness is C01-C03's subject)"]

LAYOUTS = [
    # applications: (app id, kind, peers, extra realms)
    {"name": "one-app", "apps": [(4, "auth", [0], None)]},
    {"name": "same-id-two-peers", "apps": [(4, "auth", [0], None), (4, "auth", [1], None)]},
    {"name": "three-apps", "apps": [(4, "auth", [0], None), (3, "acct", [0, 1], None),
                                    (16777251, "auth", [1], ["extra.example"])]},
    {"name": "mixed-case-realm", "apps": [(4, "auth", [0], ["Roaming.Example"]), (3, "acct", [1], None)]},
    {"name": "two-peers-extra-realms", "apps": [(4, "auth", [0, 1], ["extra.example", "Roaming.Example"]), (3, "acct", [1, 0], ["extra.example"])]},
]
PEER_REALMS = ["example", "example"]


def world_cfg(case):
    lay = LAYOUTS[case.get("layout", 0)]
    apps = []
    for (aid, kind, peers, realms) in lay["apps"]:
        apps.append({"app_id": aid, "auth": kind == "auth", "acct": kind == "acct", "peers": peers,
                     "realms": realms, "kind": case.get("app_kind", "basic"),
                     "handler": case.get("handler", "answer")})
    # (peer3 is merely known to the node: its realm is served by no application and it is nobody's default peer)
    peers = [{"name": "peer1.example", "ip": ["10.1.1.1"]}, {"name": "peer2.example", "ip": ["10.1.1.2"]},
             {"name": "peer3.other.example", "ip": ["10.1.1.3"], "realm": "other.example"}]
    if case.get("sender_dir") == "out":
        # the node dials the sending peer, which may spell its own identity in another case in its CEA
        peers[0 if case["sender_host"] == "peer1.example" else 1].update(persistent=True, reconnect_wait=1000)
    return {"peers": peers, "apps": apps, "sched_seed": case.get("seed", 0), "default_dial": "ok",
            "node_timers": {"idle": 30, "dwa": 4, "cer": 4, "cea": 4, "wakeup": 3}}


_inv = None


def inv():
    global _inv
    if _inv is None:
        _inv = c03.Inv()
        c03.static_check(_inv, Recorder("C03"))
    return _inv


def request_classes():
    I = inv()
    out = []
    for k in I.msgs:
        if k.__name__.endswith("Request") and k.code not in (257, 280, 282):
            out.append(k)
    return out


def required_scalars(k):
    I = inv()
    out = []
    for (i, d, tname, is_list, preset) in I.defs(k):
        if d.is_required and d.type_class is None and not is_list and preset is None and tname != "Grouped":
            out.append(d.attr_name)
    return out


def full_spec_strategy(k):
    """All required attributes set (type-directed values); optional ones unset."""
    I = inv()

    @st.composite
    def strat(draw):
        attrs = {}
        for (i, d, tname, is_list, preset) in I.defs(k):
            if d.is_required:
                attrs[d.attr_name] = draw(c03.attr_value(I, d, tname, is_list, 1, False))
                if is_list and not attrs[d.attr_name]["v"]:
                    attrs[d.attr_name] = {"k": "l", "v": [draw(c03.attr_value(I, d, tname, False, 1, False))]}
        return {"cls": k.__name__, "attrs": attrs, "extra": []}
    return strat()


def build_request(case):
    I = inv()
    k = I.by_name[case["cls"]]
    spec = {"cls": case["cls"], "attrs": dict(case["spec"]["attrs"]), "extra": []}
    for name in case["removed"]:
        spec["attrs"].pop(name, None)
    dmap = {d.attr_name: (d, tn) for (_, d, tn, *_r) in I.defs(k)}
    if "destination_realm" in spec["attrs"]:
        spec["attrs"]["destination_realm"] = {"k": "s", "v": {"t": "OctetString", "j": case["realm"].encode().hex()}}
    if "origin_host" in spec["attrs"]:
        who = (case.get("sender_spelling") or case["sender_host"]) if case.get("sender_dir") == "out" else case["sender_host"]
        spec["attrs"]["origin_host"] = {"k": "s", "v": {"t": "OctetString", "j": who.encode().hex()}}
    obj = c03.build_obj(I, spec)
    obj.header.application_id = case["app_id"]
    obj.header.hop_by_hop_identifier = case.get("hbh", 0x2001)
    obj.header.end_to_end_identifier = case.get("hbh", 0x2001)
    if case.get("t_flag"):
        # "potentially retransmitted" on a request the node has never seen: to be treated like any new request
        obj.header.is_retransmit = True
    return k, obj.as_bytes(), dmap


def expected(case, k, dmap):
    """Set of acceptable dispositions, from the configuration alone."""
    lay = LAYOUTS[case.get("layout", 0)]
    acc = set()
    missing = sorted(case["removed"])
    if missing:
        acc.add("5005")
    declares_realm = "destination_realm" in dmap
    realm_removed = "destination_realm" in case["removed"]
    # served realms and routes
    routes = {"example": {}}
    for ai, (aid, kind, peers, realms) in enumerate(lay["apps"]):
        for p in peers:
            for r in [PEER_REALMS[p]] + (realms or []):
                routes.setdefault(r, {}).setdefault(ai, []).append(p)
    sender = 0 if case["sender_host"] == "peer1.example" else 1
    if not declares_realm:
        acc.add("3007")
        return acc, None
    if realm_removed:
        return acc, None           # only 5005 is specified
    if case["realm"] not in routes:
        acc.add("3003")
        target = None
    else:
        target = None
        for ai, plist in routes[case["realm"]].items():
            if lay["apps"][ai][0] == case["app_id"] and sender in plist:
                target = ai
                break
        if target is None:
            acc.add("3007")
    if not acc:
        acc.add("deliver")
    return acc, target


def evaluate(case) -> Result:
    res = Result()
    if case.get("sender_spelling") in ("UPPER", "Title"):
        h = case["sender_host"]
        case = dict(case, sender_spelling=h.upper() if case["sender_spelling"] == "UPPER" else h.title())
    w = W.NodeWorld(world_cfg(case))
    try:
        w.start()
        k, req_bytes, dmap = build_request(case)
        lay = LAYOUTS[case.get("layout", 0)]
        ids = sorted({a[0] for a in lay["apps"]})
        auth_ids = [a[0] for a in lay["apps"] if a[1] == "auth"]
        acct_ids = [a[0] for a in lay["apps"] if a[1] == "acct"]
        spelled = case["sender_host"]
        if case.get("sender_dir") == "out":
            spelled = case.get("sender_spelling") or case["sender_host"]
            out = w.conns[0]
            w.answer_cer(out, 2001, auth=tuple(auth_ids), acct=tuple(acct_ids), host=spelled)
            other = "peer2.example" if case["sender_host"] == "peer1.example" else "peer1.example"
            oc = w.handshake_in(other, auth=auth_ids, acct=acct_ids, ip="10.1.1.2" if other == "peer2.example" else "10.1.1.1", hbh=0x102)
            c1, c2 = (out, oc) if case["sender_host"] == "peer1.example" else (oc, out)
            res.classes.append("sender:outbound" + ("-respelled" if spelled != case["sender_host"] else ""))
        else:
            c1 = w.handshake_in("peer1.example", auth=auth_ids, acct=acct_ids, ip="10.1.1.1", hbh=0x101)
            c2 = w.handshake_in("peer2.example", auth=auth_ids, acct=acct_ids, ip="10.1.1.2", hbh=0x102)
        sender = c1 if case["sender_host"] == "peer1.example" else c2
        sender_conns = [sender]
        if case.get("sender_overlap") and case.get("sender_dir") != "out":
            # the sender comes back on a new connection before the node has noticed that the old one is dead;
            # the request arrives on the new one.  (Which of the two connections carries the application's
            # answer is C09's subject and a known finding; here only delivery and the node's own answers count.)
            ip_ = "10.1.1.1" if case["sender_host"] == "peer1.example" else "10.1.1.2"
            newer = w.handshake_in(case["sender_host"], auth=auth_ids, acct=acct_ids, ip=ip_, hbh=0x1f3)
            if newer is not None:
                sender = newer
                sender_conns.append(newer)
                res.classes.append("sender:overlapping-reconnect")
                if case["sender_overlap"] == "old-closed":
                    w.peer_close(sender_conns[0])
        # history: requests the node has handled before (either peer, any application id / realm); the disposition of
        # the request under test is a function of the configuration alone
        for j, (who, aid_, realm_) in enumerate(case.get("earlier") or []):
            src = c1 if who == 0 else c2
            if src is None or src.node_closed:
                continue
            w.feed_msg(src, {"k": "REQ", "host": f"peer{who + 1}.example", "hbh": 0x2800 + j, "e2e": 0x2800 + j,
                             "app": aid_, "dest_realm": realm_})
        if case.get("earlier"):
            w.advance(1)
            res.classes.append("with-earlier-requests")
            if any(r["hbh"] >= 0x2800 and r["hbh"] < 0x2900 and r["app_id"] == case["app_id"] for r in w.requests_seen):
                res.classes.append("earlier-delivery-of-same-app-id")
        # history: requests the node's own applications have tried to send before (any realm; they fail with
        # NotRoutable or time out unanswered) - outbound routing must leave the inbound dispositions alone
        for j, realm_ in enumerate(case.get("earlier_out") or []):
            if not w.apps:
                break
            from diameter.message.commands import CreditControlRequest
            app_ = w.apps[j % len(w.apps)]
            m_ = CreditControlRequest()
            m_.session_id, m_.origin_host, m_.origin_realm = f"n;{j}", W.NODE_HOST.encode(), W.NODE_REALM.encode()
            m_.destination_realm, m_.service_context_id = realm_.encode(), "x"
            m_.cc_request_type, m_.cc_request_number = 1, 0
            call_ = w.app_call(lambda m=m_, a=app_: a.send_request(m, timeout=1), name=f"outbound{j}")
            w.advance(2)
            exc_ = call_["box"]["exc"]
            res.classes.append(f"earlier-outbound:{type(exc_).__name__ if exc_ is not None else 'answered'}")
        if case.get("earlier_out"):
            res.classes.append("with-earlier-outbound-requests")
        n0 = len(sender.refresh())
        noise = case.get("noise", [])
        if "DWR-before" in noise:
            w.feed_msg(sender, {"k": "DWR", "host": case["sender_host"], "hbh": 0x3001, "e2e": 0x3001})
            n0 = len(sender.refresh())
        pending_dwr = None
        if "await-DWA" in noise:
            # the node's own watchdog request is outstanding when the request arrives (READY_WAITING_DWA)
            for _ in range(40):
                w.advance(1)
                dwrs = [f for f in sender.refresh()[n0:] if f.is_request and f.code == 280]
                if dwrs:
                    pending_dwr = dwrs[-1]
                    break
            if pending_dwr is not None and not sender.node_closed:
                res.classes.append("sender:awaiting-dwa")
            n0 = len(sender.refresh())
        if case.get("t_flag"):
            res.classes.append("t-flag:new-request")
        w.feed(sender, req_bytes, case.get("cuts"))
        if pending_dwr is not None:
            w.feed_msg(sender, {"k": "DWA", "host": case["sender_host"], "hbh": pending_dwr.h["hbh"], "e2e": pending_dwr.h["e2e"]})
        if "DWR-after" in noise:
            w.feed_msg(sender, {"k": "DWR", "host": case["sender_host"], "hbh": 0x3002, "e2e": 0x3002})
        if "DWA-after" in noise:
            w.feed_msg(sender, {"k": "DWA", "host": case["sender_host"], "hbh": 0x3003, "e2e": 0x3003})
        w.advance(4)      # threading applications answer from worker threads
        acc, target = expected(case, k, dmap)
        hbh = case.get("hbh", 0x2001)
        seen = [r for r in w.requests_seen if r["hbh"] == hbh and r["code"] == k.code]
        base_seen = [r for r in w.requests_seen if r["code"] in (257, 280, 282)]
        if base_seen:
            res.v("C08/base-protocol-delivered", f"a base-protocol message reached an application: {base_seen[0]['code']}")
        answers = [f for f in sender.refresh()[n0:] if not f.is_request and f.h["hbh"] == hbh and f.code == k.code]
        if len(sender_conns) > 1:
            answers += [f for f in sender_conns[0].refresh() if not f.is_request and f.h["hbh"] == hbh and f.code == k.code]
        other_conn = c2 if sender_conns[0] is c1 else c1
        stray = [f for f in other_conn.refresh() if f.h["hbh"] == hbh and f.code == k.code]
        if stray:
            res.v("C08/answer-on-other-connection", f"{[f.brief() for f in stray]}")
        rc = answers[0].result_code() if answers else None
        handler = case.get("handler", "answer")
        if seen:
            disposition = "deliver"
        elif rc is not None:
            disposition = str(rc)
        else:
            disposition = "silence"
        if "deliver" in acc:
            if len(seen) != 1:
                res.v("C08/not-delivered" if not seen else "C08/delivered-twice",
                      f"{k.__name__}: expected delivery to application {target}, seen {len(seen)} time(s); answer rc={rc}")
            elif seen[0]["app"] != target:
                res.v("C08/wrong-application", f"delivered to application {seen[0]['app']}, expected {target}")
            else:
                want = 5012 if handler == "raise" else 2001
                if len(answers) != 1 or rc != want:
                    res.v(f"C08/handler-{handler}/answer", f"{k.__name__}: answers {[f.brief() for f in answers]}, expected one with {want}")
        else:
            if seen:
                res.v("C08/delivered-despite-error", f"{k.__name__}: expected {sorted(acc)}, but application {seen[0]['app']} saw the request")
            elif disposition not in acc:
                res.v(f"C08/wrong-result/{'|'.join(sorted(acc))}", f"{k.__name__}: got {disposition}, expected one of {sorted(acc)}")
            elif len(answers) != 1:
                res.v("C08/error-answer-count", f"{len(answers)} answers")
            elif disposition == "5005":
                check_failed_avp(case, k, dmap, answers[0], res)
        for sig, d in W.monitor_threads(w):
            res.classes.append("cross:thread-died")
        trivial = acc == {"deliver"} and len(lay["apps"]) == 1 and not case["removed"]
        res.nontrivial = not trivial
        if case["realm"] == "other.example":
            res.classes.append("realm:of-a-peer-without-application")
        res.classes += [f"expect:{'|'.join(sorted(acc))}", f"layout:{lay['name']}", f"removed:{min(len(case['removed']), 3)}",
                        f"handler:{handler}", f"app:{case.get('app_kind', 'basic')}"]
        res.sample = {"class": case["cls"], "removed": case["removed"], "realm": case["realm"], "app_id": case["app_id"],
                      "sender": case["sender_host"], "layout": lay["name"], "disposition": disposition}
        return res
    finally:
        w.close()


def check_failed_avp(case, k, dmap, ans: W.Frame, res: Result):
    I = inv()
    # does the command's answer class provide for a Failed-AVP?
    from checks.c20 import expected_answer_class
    A = expected_answer_class(k)
    declares = any(getattr(d, "avp_code", None) == W.FAILED_AVP and d.vendor_id == 0 for d in getattr(A, "avp_def", ()))
    fa = ans.avps(W.FAILED_AVP)
    if not declares:
        return
    want = sorted((dmap[n][0].avp_code, dmap[n][0].vendor_id) for n in case["removed"])
    if len(fa) != 1:
        res.v("C08/5005/failed-avp-count", f"{k.__name__}: {len(fa)} Failed-AVP AVPs in the 5005 answer")
        return
    try:
        kids = R.parse_avps(fa[0].data)
    except R.RefError as e:
        res.v("C08/5005/failed-avp-malformed", str(e))
        return
    got = sorted((a.code, a.vendor) for a in kids)
    if got != want:
        res.v("C08/5005/failed-avp-content", f"{k.__name__}: Failed-AVP lists {got}, missing were {want}")


def subsets(names):
    names = list(names)
    if len(names) <= 6:
        for r in range(len(names) + 1):
            yield from itertools.combinations(names, r)
    else:
        yield ()
        for n in names:
            yield (n,)
        yield tuple(names)
        for r in (2, 3):
            for comb in list(itertools.combinations(names, r))[:20]:
                yield comb


def shard_main(shard, nshards, tier, scale):
    rec = Recorder(PID)
    thorough = tier == "thorough"
    shrunk = set()
    classes = request_classes()
    if shard == 0:
        rec.extra["request_classes"] = len(classes)
    jobs = []
    for k in classes:
        for sub in subsets(required_scalars(k)):
            jobs.append((k, sub))
    if shard == 0:
        rec.extra["exhaustive_jobs"] = len(jobs)
    for j, (k, sub) in enumerate(jobs[shard::nshards]):
        holder = {}

        def body(spec, k=k, sub=sub):
            case = {"cls": k.__name__, "spec": spec, "removed": list(sub), "realm": "example", "app_id": 4,
                    "sender_host": "peer1.example", "layout": 0}
            res = evaluate(case)
            res.classes.append("exhaustive")
            record(rec, case, res)
        hyp.run_given(full_spec_strategy(k), body, 1, derive_seed(PID, "ex", k.__name__, sub), rec=rec)

    for k in classes[shard::nshards]:
        def mbody(spec, k=k):
            case = {"cls": k.__name__, "spec": spec, "removed": [], "realm": "Roaming.Example", "app_id": 4,
                    "sender_host": "peer1.example", "layout": 3}
            res = evaluate(case)
            res.classes.append("realm-spelling")
            record(rec, case, res)
        hyp.run_given(full_spec_strategy(k), mbody, 1, derive_seed(PID, "mc", k.__name__), rec=rec)

    for k in classes[shard::nshards]:
        for layout, sender in ((1, "peer2.example"), (2, "peer2.example"), (1, "peer1.example")):
            def obody(spec, k=k, layout=layout, sender=sender):
                lay_ids = [a[0] for a in LAYOUTS[layout]["apps"]]
                case = {"cls": k.__name__, "spec": spec, "removed": [], "realm": "example", "app_id": lay_ids[0 if layout == 1 else 1],
                        "sender_host": sender, "layout": layout, "sender_dir": "out", "sender_spelling": "Title"}
                res = evaluate(case)
                res.classes.append("outbound-respelled-grid")
                record(rec, case, res)
            hyp.run_given(full_spec_strategy(k), obody, 1, derive_seed(PID, "ob", k.__name__, layout, sender), rec=rec)

    for k in classes[shard::nshards]:
        for mode_ in ("both-open", "old-closed"):
            def ovbody(spec, k=k, mode_=mode_):
                case = {"cls": k.__name__, "spec": spec, "removed": [], "realm": "example", "app_id": LAYOUTS[0]["apps"][0][0],
                        "sender_host": "peer1.example", "layout": 0, "sender_overlap": mode_}
                res = evaluate(case)
                res.classes.append("overlap-grid")
                record(rec, case, res)
            hyp.run_given(full_spec_strategy(k), ovbody, 1, derive_seed(PID, "ov", k.__name__, mode_), rec=rec)

    for k in classes[shard::nshards]:
        def tbody(spec, k=k):
            case = {"cls": k.__name__, "spec": spec, "removed": [], "realm": "example", "app_id": LAYOUTS[0]["apps"][0][0],
                    "sender_host": "peer1.example", "layout": 0, "t_flag": True}
            res = evaluate(case)
            res.classes.append("t-flag-grid")
            record(rec, case, res)
        hyp.run_given(full_spec_strategy(k), tbody, 1, derive_seed(PID, "tf", k.__name__), rec=rec)

    for k in classes[shard::nshards]:
        def wbody(spec, k=k):
            case = {"cls": k.__name__, "spec": spec, "removed": [], "realm": "example", "app_id": LAYOUTS[0]["apps"][0][0],
                    "sender_host": "peer1.example", "layout": 0, "noise": ["await-DWA"]}
            res = evaluate(case)
            res.classes.append("awaiting-dwa-grid")
            record(rec, case, res)
        hyp.run_given(full_spec_strategy(k), wbody, 1, derive_seed(PID, "wd", k.__name__), rec=rec)

    # each layout: the other peer's matching request first, then the request under test from a sender that is not
    # configured for that application (or configured for another application of the same id)
    for k in classes[shard::nshards]:
        for layout in (0, 1, 2):
            for sender in ("peer1.example", "peer2.example"):
                def ebody(spec, k=k, layout=layout, sender=sender):
                    ids_ = sorted({a[0] for a in LAYOUTS[layout]["apps"]})
                    other = 1 if sender == "peer1.example" else 0
                    for aid_ in ids_:
                        case = {"cls": k.__name__, "spec": spec, "removed": [], "realm": "example", "app_id": aid_,
                                "sender_host": sender, "layout": layout, "earlier": [[other, aid_, "example"]]}
                        res = evaluate(case)
                        res.classes.append("earlier-grid")
                        record(rec, case, res)
                hyp.run_given(full_spec_strategy(k), ebody, 1, derive_seed(PID, "eg", k.__name__, layout, sender), rec=rec)

    # an application with several peers and additional realms: every (sender, realm, application id)
    for k in classes[shard::nshards]:
        def xbody(spec, k=k):
            for sender in ("peer1.example", "peer2.example"):
                for realm_ in ("example", "extra.example", "Roaming.Example", "other.example"):
                    for aid_ in (4, 3):
                        case = {"cls": k.__name__, "spec": spec, "removed": [], "realm": realm_, "app_id": aid_,
                                "sender_host": sender, "layout": 4}
                        res = evaluate(case)
                        res.classes.append("extra-realms-grid")
                        record(rec, case, res)
        hyp.run_given(full_spec_strategy(k), xbody, 1, derive_seed(PID, "xr", k.__name__), rec=rec)

    n = int((6000 if thorough else 400) * scale)

    @st.composite
    def cases(draw):
        k = draw(st.sampled_from(classes))
        req = required_scalars(k)
        removed = draw(st.lists(st.sampled_from(req), max_size=2, unique=True)) if req and draw(st.integers(0, 2)) == 0 else []
        layout = draw(st.integers(0, len(LAYOUTS) - 1))
        ids = sorted({a[0] for a in LAYOUTS[layout]["apps"]})
        return {"cls": k.__name__, "spec": draw(full_spec_strategy(k)), "removed": removed,
                "realm": draw(st.sampled_from(["example", "example", "extra.example", "elsewhere.example", "Roaming.Example", "other.example"])),
                "app_id": draw(st.sampled_from(ids + [999])),
                "sender_host": draw(st.sampled_from(["peer1.example", "peer2.example"])),
                "layout": layout, "handler": draw(st.sampled_from(["answer", "answer", "raise"])),
                "app_kind": draw(st.sampled_from(["basic", "threading"])),
                "noise": draw(st.lists(st.sampled_from(["DWR-before", "DWR-after", "DWA-after", "await-DWA"]), max_size=2, unique=True)),
                "sender_dir": draw(st.sampled_from(["in", "in", "out"])), "t_flag": draw(st.sampled_from([False, False, True])),
                "sender_overlap": draw(st.sampled_from([None, None, None, "both-open", "old-closed"])),
                "sender_spelling": draw(st.sampled_from([None, "UPPER", "Title"])),
                "earlier": draw(st.one_of(st.just([]), st.lists(st.tuples(
                    st.integers(0, 1), st.sampled_from(ids + [999]),
                    st.sampled_from(["example", "example", "extra.example", "Roaming.Example"])).map(list), min_size=1, max_size=3))),
                "earlier_out": draw(st.one_of(st.just([]), st.just([]), st.lists(st.sampled_from(
                    ["example", "extra.example", "elsewhere.example", "Roaming.Example", "other.example"]), min_size=1, max_size=2))),
                "seed": draw(st.integers(0, 3))}

    def rbody(case):
        res = evaluate(case)
        res.classes.append("random")
        record(rec, case, res)
    hyp.run_given(cases(), rbody, n, derive_seed(PID, "rand", shard), rec=rec)
    return rec.dump()


def run(tier, scale=1.0):
    t0 = time.time()
    rec = Recorder(PID)
    for d in hyp.pool_run(shard_main, (tier, scale)):
        rec.merge(d)
    required = {"realm:of-a-peer-without-application": 1, "layout:two-peers-extra-realms": 1, "with-earlier-requests": 1, "with-earlier-outbound-requests": 1, "earlier-outbound:NotRoutable": 1, "earlier-delivery-of-same-app-id": 1, "sender:overlapping-reconnect": 1, "t-flag:new-request": 1, "sender:awaiting-dwa": 1, "sender:outbound-respelled": 1, "layout:mixed-case-realm": 1, "expect:deliver": 1, "expect:5005": 1, "expect:3003": 1, "expect:3007": 1, "handler:raise": 1,
                "layout:same-id-two-peers": 1, "layout:three-apps": 1, "app:threading": 1, "removed:2": 1}
    return finish(rec, tier=tier, level="exploration", rule=RULE, assumptions=ASSUME, t0=t0,
                  required_classes=required,
                  extra_cov={"exhaustive_part": "every typed application request class x subsets of removed required scalar attributes"})


def replay(doc):
    return generic_replay(PID, evaluate, doc)
