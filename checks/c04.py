"""C04 -- decoding hostile bytes terminates and raises only library decode errors.

Oracle (inside every case): allow-list of exception types; deterministic work
counters (calls of Avp.from_unpacker and of the Unpacker primitives, installed
by the harness) bounded linearly in the input length; unpacker position after
every successfully decoded AVP strictly larger than before and <= len(buffer);
str() of every decoded AVP / header / message never raises.
"""
from __future__ import annotations

import glob
import os
import signal
import time

from hypothesis import strategies as st

from dv import hyp, refcodec as R, strategies as S
from dv.common import VERIF_DIR, derive_seed, fp
from dv.evidence import Recorder, finish
import diameter.message            # noqa: E402,F401  (the codec's module state is recorded before its first use)
import diameter.message.commands   # noqa: E402,F401
from dv import codecthreads as CT

PRISTINE = CT.ModuleState()

PID = "C04"
RULE = ("inputs: uniformly random bytes (0..64 KiB, small sizes favoured); every prefix of valid "
        "messages (generated + 3 captured from tests/); 1..8 bit flips; every length field (message, "
        "AVP, nested AVP, located by the reference parser's span map) replaced by each of "
        "{0,1,7,8,11,12,len-1,len+1,2^24-1}; for every dictionary type payloads of every length "
        "0..20 with invalid content, bare, under untyped commands and under every typed command "
        "class declaring such an AVP. Non-trivial: the input reaches AVP parsing (>= 28 bytes with a "
        "20-byte header) or a typed value getter is exercised; distinct by hash of the input bytes.")
ASSUME = ["allowed exceptions: diameter.message.packer.Error subclasses and AvpDecodeError",
          "walk of decoded AVPs descends at most 16 grouped levels (quantifier: nesting <= 16)",
          "work bound: Avp.from_unpacker calls <= 4*(len/8+1)*(17) and Unpacker primitive calls <= 16x that; "
          "a case exceeding it is a non-termination/non-linearity verdict (deterministic), a wall-clock alarm (60 s/case) yields exit 2",
          "counting wrappers are installed by the harness on Avp.from_unpacker and Unpacker.unpack_* (no repository hook)"]

LEN_VALUES = [0, 1, 7, 8, 11, 12, "len-1", "len+1", (1 << 24) - 1]
MAX_WALK_DEPTH = 16
# RFC 6733 4.2: the AVP Length of these types is fixed (payload widths in bytes)
FIXED_WIDTH = {"AvpInteger32": 4, "AvpUnsigned32": 4, "AvpEnumerated": 4, "AvpFloat32": 4, "AvpInteger64": 8, "AvpUnsigned64": 8,
               "AvpFloat64": 8, "AvpTime": 4}


class WorkBudget(BaseException):
    pass


class Counters:
    avp_calls = 0
    prim_calls = 0
    avp_budget = 1 << 60
    prim_budget = 1 << 60
    pos_error = None
    installed = False


def install_counters():
    if Counters.installed:
        return
    from diameter.message.avp import Avp
    from diameter.message.packer import Unpacker
    orig = Avp.from_unpacker.__func__

    def counted(cls, unpacker):
        Counters.avp_calls += 1
        if Counters.avp_calls > Counters.avp_budget:
            raise WorkBudget("Avp.from_unpacker calls")
        before = unpacker.get_position()
        a = orig(cls, unpacker)
        after = unpacker.get_position()
        if not (before < after <= len(unpacker.get_buffer())):
            Counters.pos_error = (before, after, len(unpacker.get_buffer()))
        return a
    Avp.from_unpacker = classmethod(counted)
    for name in ("unpack_uint", "unpack_fstring", "unpack_fopaque", "unpack_int", "unpack_char",
                 "unpack_float", "unpack_double"):
        f = getattr(Unpacker, name)

        def wrap(f):
            def w(self, *a, **k):
                Counters.prim_calls += 1
                if Counters.prim_calls > Counters.prim_budget:
                    raise WorkBudget("Unpacker primitive calls")
                return f(self, *a, **k)
            return w
        setattr(Unpacker, name, wrap(f))
    Counters.installed = True


def allowed():
    from diameter.message.avp import AvpDecodeError
    from diameter.message.packer import Error
    return (Error, AvpDecodeError)


def esc_sig(e, src):
    import traceback
    tb = traceback.extract_tb(e.__traceback__)
    inner = None
    for fr in reversed(tb):
        if os.path.abspath(fr.filename).startswith(src):
            inner = fr
            break
    where = f"{os.path.basename(inner.filename)}:{inner.name}" if inner else "?"
    return f"{type(e).__name__}@{where}"


def walk_avps(avps, rec, case, depth, src, ADE):
    from diameter.message.avp import AvpGrouped
    for a in avps:
        raised_first = False
        try:
            v = a.value
        except ADE:
            v = None
            raised_first = True
        except WorkBudget:
            raise
        except Exception as e:
            rec.violation(f"C04/escape/{esc_sig(e, src)}", case, f"{type(a).__name__}.value raised {e!r}"[:300])
            v = None
        # a payload whose length is impossible for a fixed-width type is malformed: reading it raises the decode error
        width = FIXED_WIDTH.get(type(a).__name__)
        if width is not None and not raised_first and v is not None and len(a.payload) != width:
            rec.violation(f"C04/malformed-accepted/{type(a).__name__}", case,
                          f"{type(a).__name__} with a payload of {len(a.payload)} bytes (the type has {width}): .value returned {str(v)[:60]} "
                          f"instead of raising the decode error")
        # every read must behave the same: a malformed payload raises the decode
        # error each time, a well-formed one returns an equal value each time
        try:
            v2 = a.value
            same = (v2 == v) or (v2 != v2 and v != v)
            if raised_first or not same:
                rec.violation("C04/inconsistent-read", case,
                              f"{type(a).__name__}.value: first read {'raised AvpDecodeError' if raised_first else 'returned'}, "
                              f"second read returned {str(v2)[:80]}")
        except ADE:
            if not raised_first:
                rec.violation("C04/inconsistent-read", case, f"{type(a).__name__}.value returned first, raised on the second read")
        except WorkBudget:
            raise
        except Exception:
            pass            # already reported by the first read
        try:
            str(a)
        except WorkBudget:
            raise
        except Exception as e:
            rec.violation(f"C04/escape/{esc_sig(e, src)}", case, f"str({type(a).__name__}) raised {e!r}"[:300])
        if isinstance(a, AvpGrouped) and isinstance(v, list) and depth < MAX_WALK_DEPTH:
            walk_avps(v, rec, case, depth + 1, src, ADE)


def check_bytes(b: bytes, rec: Recorder, origin: str, typed_getter=False):
    from diameter.message import Message
    from diameter.message.avp import Avp, AvpDecodeError
    from dv.common import SRC
    src = os.path.abspath(SRC) + os.sep
    ok_exc = allowed()
    case = {"hex": b.hex(), "origin": origin} if len(b) <= 4096 else {"hex": b.hex(), "origin": origin, "len": len(b)}
    n = len(b)
    Counters.avp_budget = 4 * (n // 8 + 1) * (MAX_WALK_DEPTH + 1)
    Counters.prim_budget = 16 * Counters.avp_budget + 64
    Counters.avp_calls = Counters.prim_calls = 0
    Counters.pos_error = None
    reached = False
    try:
        for mode in ("typed", "plain", "avp"):
            try:
                if mode == "typed":
                    r = Message.from_bytes(b)
                elif mode == "plain":
                    r = Message.from_bytes(b, plain_msg=True)
                else:
                    r = Avp.from_bytes(b)
            except ok_exc:
                rec.cls(f"outcome:{mode}:decode-error")
                continue
            except WorkBudget:
                raise
            except Exception as e:
                rec.violation(f"C04/escape/{esc_sig(e, src)}", case, f"{mode} decode raised {e!r}"[:300])
                continue
            rec.cls(f"outcome:{mode}:returned")
            reached = True
            try:
                if mode == "avp":
                    walk_avps([r], rec, case, 0, src, AvpDecodeError)
                else:
                    try:
                        str(r.header)
                        str(r)
                    except WorkBudget:
                        raise
                    except Exception as e:
                        rec.violation(f"C04/escape/{esc_sig(e, src)}", case, f"str(message/header) raised {e!r}"[:300])
                    if mode == "plain":
                        walk_avps(r.avps, rec, case, 0, src, AvpDecodeError)
            except RecursionError as e:
                rec.violation("C04/escape/recursion", case, repr(e)[:200])
    except WorkBudget as e:
        rec.violation(f"C04/work-bound/{e}", case,
                      f"{Counters.avp_calls} AVP parses / {Counters.prim_calls} primitive reads for {n} input bytes "
                      f"(bounds {Counters.avp_budget}/{Counters.prim_budget})")
    if Counters.pos_error:
        rec.violation("C04/position", case, f"unpacker position before/after/len = {Counters.pos_error}")
    nontrivial = (n >= 28 and reached) or typed_getter
    rec.case(fp(hash(b)) if nontrivial else None, [f"gen:{origin}"],
             sample=lambda: {"origin": origin, "len": n, "hex": b.hex()[:120]})


# --------------------------------------------------------------------------
# generators
# --------------------------------------------------------------------------
def corpus_messages():
    out = []
    for p in sorted(glob.glob(os.path.join(VERIF_DIR, "corpus", "C04", "*.hex"))):
        out.append(bytes.fromhex(open(p).read().strip()))
    return out


def valid_message_bytes(D, codes):
    from checks.c02 import message_spec

    def enc(ms):
        body = b"".join(S.ref_encode(D, a) for a in ms["avps"])
        return R.enc_message(ms["version"], ms["flags"], ms["code"], ms["app"], ms["hbh"], ms["e2e"], body)
    return message_spec(D, codes, max_avps=10).map(enc)


def length_field_positions(buf):
    """(offset, kind) of the 3-byte length fields: message + every AVP (nested)."""
    pos = [(1, "message")]
    try:
        tree = R.parse_tree(buf[20:], R.dict_is_grouped, 20)
    except R.RefError:
        return pos
    for a in R.walk(tree):
        pos.append((a.len_pos, "nested-avp" if a.depth else "avp"))
    return pos


def with_length(buf, off, val):
    cur = int.from_bytes(buf[off:off + 3], "big")
    v = cur - 1 if val == "len-1" else cur + 1 if val == "len+1" else val
    v = max(0, min(v, (1 << 24) - 1))
    return buf[:off] + v.to_bytes(3, "big") + buf[off + 3:]


def bad_payloads(tname, n, variant):
    """Payloads of length n (0..20) with invalid / awkward content for a type."""
    fill = [b"\xff", b"\x00", b"\x80", b"\xc3", b"\x00\x01", b"\x00\x02", b"\x00\x08", b"\x7f\xfe"][variant % 8]
    base = (fill * (n // len(fill) + 1))[:n]
    if tname == "Address" and n >= 2:
        fam = [1, 2, 8, 0, 3, 0xffff, 1, 2][variant % 8]
        base = fam.to_bytes(2, "big") + ((b"\xff\xfe" if variant % 2 else b"\x31\xc3") * 10)[:n - 2]
    if tname == "UTF8String" and n >= 1:
        bad = [b"\xff", b"\xc3", b"\xed\xa0\x80", b"\xf8\x88\x80\x80\x80", b"\xc0\xaf", b"\xe2\x82", b"a\x80", b"\xf4\x90\x80\x80"][variant % 8]
        base = (bad * (n // len(bad) + 1))[:n]
    if tname == "Grouped" and n >= 1:
        g = [b"\x00\x00\x01\x07\x40\x00\x00\x05", b"\x00\x00\x01\x07\xc0\x00\x00\x0c\x00", b"\xff" * 8 + b"\x00" * 12,
             b"\x00\x00\x01\x07\x00\x00\x00\x00", b"\x00\x00\x01\x07\x00\xff\xff\xff", b"\x00" * 20,
             b"\x00\x00\x01\x07\x80\x00\x00\x08", b"\x00\x00\x01\x07\x40\x00\x00\x09\x41"][variant % 8]
        base = (g + b"\x00" * 20)[:n]
    return base


def typed_sites(D):
    """(class, def) for every typed message class x declared top-level AVP."""
    from checks.c03 import Inv
    inv = Inv()
    sites = []
    for k in inv.msgs:
        for d in k.avp_def:
            if hasattr(d, "avp_code") and (d.avp_code, d.vendor_id) in D.by_key:
                sites.append((k, d))
    return sites


# --------------------------------------------------------------------------
def alarm_handler(signum, frame):
    raise TimeoutError("C04 wall-clock alarm")


def check_concurrent(t, rec: Recorder):
    """Two or three threads decode different inputs at once (as the reader threads of different connections do):
    each gets the outcome - the decoded content, or the decode error - that it gets when the calls run in turn."""
    from diameter.message import Message
    bufs, seed, p = t
    case = {"concurrent": [b.hex() for b in bufs], "seed": seed, "p": p}
    # the work counters are shared by the threads: a bound for all inputs together, twice (typed + plain), so that a
    # decoder that does not terminate ends here as it does in the sequential part (which is where it is reported)
    total = sum(len(b) for b in bufs)
    Counters.avp_budget = 8 * (4 * (total // 8 + 1) * (MAX_WALK_DEPTH + 1))
    Counters.prim_budget = 16 * Counters.avp_budget + 64

    def decode(b):
        out = []
        for plain in (False, True):
            Counters.avp_calls = Counters.prim_calls = 0
            try:
                m = Message.from_bytes(b, plain_msg=plain) if plain else Message.from_bytes(b)
            except allowed() as e:
                out.append(("decode-error", type(e).__name__))
                continue
            except WorkBudget:
                out.append(("work-bound",))
                continue
            h = m.header
            tops = tuple((a.code, a.vendor_id, bytes(a.payload)) for a in m.avps)
            out.append((type(m).__name__, h.command_code, h.hop_by_hop_identifier, h.end_to_end_identifier, tops))
        return tuple(out)
    tasks = [lambda b=b: decode(b) for b in bufs]
    conc, seq, taken, errs = CT.concurrent_vs_sequential(tasks, PRISTINE, seed, p, 6)
    for i, (c, s_) in enumerate(zip(conc, seq)):
        if c != s_:
            if c[0] != "ok":
                kind, detail = f"decode-fails/{c[1]}", f"thread {i}: {c} where the sequential call gives {s_[0]}"
            elif s_[0] != "ok":
                kind, detail = "outcome-differs", f"thread {i} returns where the sequential call raises {s_[1]}"
            else:
                kind = "content-differs"
                detail = f"thread {i} (input of {len(bufs[i])} bytes): decoded {str(c[1])[:120]} but sequentially {str(s_[1])[:120]}"
            rec.violation(f"C04/concurrent/{kind}", case, detail + f"; schedule {taken}")
            break
    for e in errs:
        rec.violation("C04/concurrent/thread-error", case, e[:300])
    rec.case(fp("conc", tuple(hash(b) for b in bufs), tuple(sorted(taken.items()))) if taken else None,
             ["gen:concurrent", f"concurrent:inputs:{len(bufs)}", f"concurrent:switches:{min(len(taken), 6)}",
              "concurrent:with-decode-error" if any(s_[0] == "ok" and any(x[0] == "decode-error" for x in s_[1]) for s_ in seq) else "concurrent:all-decodable"],
             sample=lambda: {"lens": [len(b) for b in bufs], "schedule": {str(i): c for i, c in taken.items()}})


def shard_main(shard, nshards, tier, scale):
    from diameter.message import DefinedMessage
    from diameter.message.commands import all_commands
    rec = Recorder(PID)
    D = S.Dict()
    codec_fns = CT.codec_functions()          # before the counting wrappers replace some of them
    install_counters()
    thorough = tier == "thorough"
    signal.signal(signal.SIGALRM, alarm_handler)
    signal.alarm(3000 if thorough else 900)
    codes = sorted(all_commands)

    # 1 random bytes
    n_rand = int((60000 if thorough else 4000) * scale)
    sizes = st.one_of(st.integers(0, 64), st.integers(0, 64), st.integers(0, 2048), st.integers(0, 65535))
    rnd = sizes.flatmap(lambda n: st.binary(min_size=n, max_size=n) if n <= 256 else
                        st.tuples(st.binary(min_size=64, max_size=64), st.integers(0, 255)).map(
                            lambda t: (t[0] * (n // 64 + 1))[:n]))
    hyp.run_given(rnd, lambda b: check_bytes(b, rec, "random"), n_rand, derive_seed(PID, "rand", shard), rec=rec)
    # random bytes behind a plausible header (reaches AVP parsing)
    hdr_rnd = st.tuples(st.sampled_from(codes + [999]), st.integers(0, 255), st.binary(max_size=200)).map(
        lambda t: R.enc_message(1, t[1], t[0], 0, 1, 2, t[2]))
    hyp.run_given(hdr_rnd, lambda b: check_bytes(b, rec, "random-body"), n_rand // 2,
                  derive_seed(PID, "randbody", shard), rec=rec)

    # 2..4 mutations of valid messages
    n_valid = int((600 if thorough else 40) * scale) or 1
    corpus = corpus_messages() if shard == 0 else []

    def mutate_all(buf):
        check_bytes(buf, rec, "valid")
        step = 1 if len(buf) <= 400 else max(1, len(buf) // 200)
        for i in range(0, len(buf), step):
            check_bytes(buf[:i], rec, "prefix")
        for off, kind in length_field_positions(buf)[:120]:
            for val in LEN_VALUES:
                check_bytes(with_length(buf, off, val), rec, f"length-{kind}")
    for buf in corpus:
        mutate_all(buf)
    hyp.run_given(valid_message_bytes(D, codes), mutate_all, n_valid, derive_seed(PID, "valid", shard), rec=rec)

    flips = st.tuples(valid_message_bytes(D, codes), st.lists(st.integers(0, 1 << 30), min_size=1, max_size=8))

    def flip_body(t):
        buf, idx = t
        b = bytearray(buf)
        for i in idx:
            bit = i % (len(b) * 8)
            b[bit // 8] ^= 1 << (bit % 8)
        check_bytes(bytes(b), rec, "bitflip")
    hyp.run_given(flips, flip_body, int((30000 if thorough else 2500) * scale), derive_seed(PID, "flip", shard), rec=rec)
    for buf in corpus:
        for i in range(len(buf) * 8):
            b = bytearray(buf)
            b[i // 8] ^= 1 << (i % 8)
            check_bytes(bytes(b), rec, "bitflip")

    # 5 typed payloads of every length 0..20, bare / untyped command / typed command sites
    variants = range(8) if thorough else range(3)
    untyped = [c for c, k in all_commands.items() if not issubclass(k, DefinedMessage)][:2] + [999]
    tnames = sorted(D.by_type)
    jobs = []
    for tname in tnames:
        for e in D.by_type[tname][:2]:
            for n in range(21):
                for v in variants:
                    jobs.append((tname, e, n, v))
    for (tname, e, n, v) in jobs[shard::nshards]:
        avp = R.enc_avp(e[0], e[1], 0x40, bad_payloads(tname, n, v + shard))
        check_bytes(avp, rec, f"typed-payload-bare:{tname}", typed_getter=True)
        for c in untyped:
            check_bytes(R.enc_message(1, 0x80, c, 0, 1, 2, avp), rec, f"typed-payload-untyped-cmd:{tname}", True)
            inner = R.enc_avp(456, 0, 0x40, avp)     # inside a Grouped AVP
            check_bytes(R.enc_message(1, 0x80, c, 0, 1, 2, inner), rec, f"typed-payload-nested:{tname}", True)
    sites = typed_sites(D)
    rec.extra["typed_sites"] = len(sites)
    lens = range(21)
    for j, (k, d) in enumerate(sites[shard::nshards]):
        tname = D.tname(d.avp_code, d.vendor_id)
        for n in lens:
            v = (j + n) % 8
            avp = R.enc_avp(d.avp_code, d.vendor_id, 0x40, bad_payloads(tname, n, v))
            flags = 0x80 if k.__name__.endswith("Request") else 0
            check_bytes(R.enc_message(1, flags, k.code, 0, 1, 2, avp), rec, f"typed-payload-typed-cmd:{tname}", True)
    # grouped AVPs nested 1..16 deep (the quantifier's bound): well-formed chains, and chains whose innermost member is
    # malformed, under typed, untyped and unknown commands, request and answer
    chains = [(279, 0), (456, 0), (260, 0), (873, 10415)]
    inner_variants = [R.enc_avp(1, 0, 0x40, b"user"), R.enc_avp(268, 0, 0x40, b"\x00\x00\x07"), b"", R.enc_avp(1, 0, 0x40, b"\xff\xfe")]
    deep_jobs = [(depth, g, v, c, fl) for depth in range(1, 17) for g in range(len(chains)) for v in range(len(inner_variants))
                 for c in (257, 272, untyped[0], 999, 283) for fl in (0x80, 0x00)]
    for (depth, g, v, c, fl) in deep_jobs[shard::nshards]:
        body = inner_variants[v]
        for lvl in range(depth):
            code_, vend_ = chains[(g + lvl) % len(chains)] if lvl % 3 == 2 else chains[g]
            body = R.enc_avp(code_, vend_, 0x40, body)
        check_bytes(R.enc_message(1, fl, c, 0, 1, 2, body), rec, f"deep-nesting:{min(depth, 16)}", True)

    # concurrent decoding (last: the preemption points slow the codec down)
    from dv import sched as _sched
    _sched.clear()
    info = _sched.install(codec_fns)
    if shard == 0:
        rec.extra["concurrent_preemption_functions"] = len(info)

    def damaged(t):
        buf, idx = t
        b = bytearray(buf)
        for i in idx:
            bit = i % (len(b) * 8)
            b[bit // 8] ^= 1 << (bit % 8)
        return bytes(b)
    one = st.one_of(valid_message_bytes(D, codes), valid_message_bytes(D, codes),
                    st.tuples(valid_message_bytes(D, codes), st.lists(st.integers(0, 1 << 30), min_size=1, max_size=4)).map(damaged))
    cstrat = st.tuples(st.lists(one, min_size=2, max_size=3), st.integers(0, 1 << 30), st.sampled_from([0.02, 0.08, 0.3]))
    hyp.run_given(cstrat, lambda t: check_concurrent(t, rec), int((1000 if thorough else 200) * scale),
                  derive_seed(PID, "concurrent", shard), rec=rec)
    _sched.clear()
    signal.alarm(0)
    return rec.dump()


def run(tier, scale=1.0):
    t0 = time.time()
    rec = Recorder(PID)
    try:
        for d in hyp.pool_run(shard_main, (tier, scale)):
            rec.merge(d)
    except Exception as e:
        if "wall-clock alarm" in str(e):
            print(f"[{PID}] inconclusive: wall-clock guard hit")
            return 2
        raise
    fuzz_info = {}
    if tier == "thorough":
        fuzz_info = run_atheris(rec)
    required = {"gen:deep-nesting:16": 1, "gen:deep-nesting:11": 1, "gen:concurrent": 1, "concurrent:inputs:3": 1, "concurrent:switches:6": 1, "concurrent:with-decode-error": 1,
                "gen:random": 1, "gen:prefix": 1, "gen:bitflip": 1, "gen:length-message": 1,
                "gen:length-avp": 1, "gen:length-nested-avp": 1, "gen:typed-payload-bare:Address": 1,
                "gen:typed-payload-typed-cmd:Grouped": 1, "gen:typed-payload-untyped-cmd:Time": 1,
                "outcome:plain:returned": 1, "outcome:plain:decode-error": 1}
    return finish(rec, tier=tier, level="exploration", rule=RULE, assumptions=ASSUME, t0=t0,
                  required_classes=required, extra_cov=fuzz_info)


def run_atheris(rec):
    """Coverage-guided campaign (E6); see fuzz/c04_atheris.py.  Findings come
    back as saved inputs which are re-checked by check_bytes here."""
    import subprocess
    import sys
    from dv.common import seed_base
    script = os.path.join(VERIF_DIR, "fuzz", "c04_atheris.py")
    deps = os.path.join(VERIF_DIR, ".deps")
    if not os.path.isdir(os.path.join(deps, "atheris")):
        return {"atheris": "not installed (setup.sh could not install the wheel); campaign skipped"}
    info = {"atheris_runs": []}
    install_counters()
    for label, use_corpus in (("empty-corpus", False), ("seeded-corpus", True)):
        work = os.path.join(VERIF_DIR, "fuzz", "work", label)
        subprocess.run(["rm", "-rf", work])
        os.makedirs(work, exist_ok=True)
        env = dict(os.environ, PYTHONPATH=deps + os.pathsep + VERIF_DIR)
        args = [sys.executable, "-B", script, work, f"-seed={seed_base() % (1 << 31) or 1}",
                "-runs=2000000", "-max_len=4096", "-timeout=60", f"-artifact_prefix={work}/crash-"]
        out = os.path.join(work, "units")        # libFuzzer writes new units to the first directory only
        os.makedirs(out, exist_ok=True)
        args.append(out)
        if use_corpus:
            args.append(os.path.join(VERIF_DIR, "corpus", "C04", "bin"))
        try:
            p = subprocess.run(args, env=env, capture_output=True, text=True, timeout=2400)
            tail = (p.stderr or "")[-600:]
        except subprocess.TimeoutExpired:
            tail = "campaign hit the wall-clock limit (inconclusive, not a violation)"
        found = sorted(glob.glob(os.path.join(work, "finding-*")))
        for f in found:
            check_bytes(open(f, "rb").read(), rec, f"atheris-{label}")
        info["atheris_runs"].append({"label": label, "findings_replayed": len(found), "log_tail": tail[-300:]})
    return info


def replay(doc):
    rec = Recorder(PID)
    if "concurrent" in doc["case"]:
        CT.install_points()
        c = doc["case"]
        check_concurrent(([bytes.fromhex(h) for h in c["concurrent"]], c["seed"], c["p"]), rec)
    else:
        install_counters()
        check_bytes(bytes.fromhex(doc["case"]["hex"]), rec, "replay")
    if doc["signature"] in rec.violations:
        print(f"  replayed: {rec.violations[doc['signature']]['detail'][:300]}")
        print(f"VIOLATION property={PID} replay=(replay)")
        return 1
    print(f"[{PID}] replay: signature does not reproduce")
    return 0
