"""C11 -- watchdog: idle sends one DWR, DWA restores ready, silence closes the connection.

Histories over a virtual clock (1 s resolution): traffic, DWR, DWA and clock
advances on an inbound or outbound ready connection, x idle/dwa timeouts at
node and peer level x wakeup intervals.  Reference model: safety windows
(no DWR while int(now)-int(last bytes) <= idle; no close while
int(now)-int(DWR) <= dwa) and bounded promptness (+ wakeup + 1 s), exactly one
DWR per idle episode, state marking, DWA content.
"""
from __future__ import annotations

import time

from hypothesis import strategies as st

from dv import hyp, world as W
from dv.common import derive_seed
from dv.evidence import Recorder, finish
from checks.nodecommon import Result, record, generic_replay

PID = "C11"
RULE = ("histories of 1..40 events {advance 1..n s, application request (traffic), DWR from the peer, DWA "
        "from the peer, 1..24 bytes of a request that trickles in, the peer stops / resumes reading (the node's output piles up)} on an inbound or outbound ready connection x (node idle, node dwa, "
        "peer idle, peer dwa) in 1..60 s incl. unset peer values x wakeup 1..10 s; horizons up to 10x the "
        "largest timeout. Non-trivial: >= 1 idle episode (a DWR was due) with a DWA outcome (answered, "
        "late, never); distinct by (configuration, script).")
ASSUME = ["timer reference = last instant bytes arrived (what the node measures); integer-second clock steps",
          "safety + bounded promptness: an action due when timer T expires must not happen while int(now)-int(ref) <= T and must have happened by ref + T + wakeup + 1",
          "the effective timeout is the peer's value when set, else the node's"]


def world_cfg(case):
    t = case["timers"]
    peer = {"name": "peer1.example", "ip": ["10.1.1.1"], "persistent": case["dir"] == "out", "timers": {},
            "reconnect_wait": 1000000}
    if t.get("p_idle"):
        peer["timers"]["idle"] = t["p_idle"]
    if t.get("p_dwa"):
        peer["timers"]["dwa"] = t["p_dwa"]
    return {"peers": [peer], "apps": [{"app_id": 4, "auth": True, "peers": [0], "handler": "answer"}],
            "node_timers": {"idle": t["idle"], "dwa": t["dwa"], "cer": 100, "cea": 100, "wakeup": t["wakeup"]},
            "default_dial": "ok", "sched_seed": case.get("seed", 0), "timers_after_peers": bool(case.get("timers_after_peers"))}


def evaluate(case) -> Result:
    res = Result()
    w = W.NodeWorld(world_cfg(case))
    t = case["timers"]
    idle_T = t.get("p_idle") or t["idle"]
    dwa_T = t.get("p_dwa") or t["dwa"]
    wake = t["wakeup"]
    H = case.get("spell") or "peer1.example"       # the peer's own spelling of its identity
    try:
        w.start()
        pm = w.mods["peer"]
        if case.get("spell"):
            res.classes.append("identity:respelled")
        if case["dir"] == "out":
            c = w.conns[0]
            w.answer_cer(c, 2001, auth=(4,), host="peer1.example", spelled=H)
        else:
            if case.get("prelude"):
                # an earlier connection of the same peer that ended with a DPR (or just went away)
                c0 = w.handshake_in("peer1.example", auth=[4], spelled=H, hbh=0x90)
                if case["prelude"] == "dpr":
                    w.feed_msg(c0, {"k": "DPR", "host": H, "hbh": 0x91, "e2e": 0x91})
                w.peer_close(c0)
                res.classes.append(f"prelude:{case['prelude']}")
            c = w.handshake_in("peer1.example", auth=[4], spelled=H)
        nc = w.node_conn_for(c)
        if nc is None or nc.state != pm.PEER_READY:
            res.v("C11/setup", "connection did not become ready")
            return res
        now = lambda: int(w.k.now)          # noqa: E731
        ref = now()
        waiting = False
        t_dwr = None
        n_out = len(c.refresh())
        hbh = 0x6000
        episodes = outcomes = 0
        state_id = w.node.state_id
        closed_handled = False
        blocked = False
        partial = [b""]          # rest of a request that is arriving in fragments

        out_n = [0]

        def flush_partial():
            if partial[0]:
                w.feed(c, partial[0], run=False)
                partial[0] = b""
        # clock advances are observed second by second (a queued DWR behind a blocked socket shows
        # only in the connection state, which must be sampled before the DWA timeout closes it)
        expanded = []
        for ev in case["events"]:
            if ev[0] == "ADV" and ev[1] > 1:
                expanded += [["ADV", 1]] * ev[1]
            else:
                expanded.append(ev)
        for ev in expanded:
            kind = ev[0]
            fed = None
            if c.node_closed:
                break
            if kind == "ADV":
                w.advance(ev[1])
            elif kind == "TRAFFIC":
                hbh += 1
                flush_partial()
                w.feed_msg(c, {"k": "REQ", "host": H, "hbh": hbh, "e2e": hbh})
                fed = "REQ"
            elif kind == "FRAG":
                # the next few bytes of a request that trickles in: bytes arrive, no message completes
                if not partial[0]:
                    hbh += 1
                    partial[0] = W.build_msg({"k": "REQ", "host": H, "hbh": hbh, "e2e": hbh})
                piece, partial[0] = partial[0][:ev[1]], partial[0][ev[1]:]
                w.feed(c, piece)
                fed = "FRAG"
                res.classes.append("fragment")
            elif kind == "OUT":
                # the node itself writes to the peer (an application sends a request that is never answered): the idle
                # timer is about what was *received*
                from diameter.message.commands import CreditControlRequest
                out_n[0] += 1
                m_ = CreditControlRequest()
                m_.session_id, m_.origin_host, m_.origin_realm = f"n;{out_n[0]}", W.NODE_HOST.encode(), W.NODE_REALM.encode()
                m_.destination_realm, m_.service_context_id = W.NODE_REALM.encode(), "x"
                m_.cc_request_type, m_.cc_request_number = 1, 0
                w.k.spawn(lambda m=m_: w.apps[0].send_request(m, timeout=1), name=f"outbound{out_n[0]}")
                w.run()
                res.classes.append("node-sends-request")
            elif kind == "BLOCK_TX":
                blocked = True
                c.remote.sock.tx_blocked = True       # the peer stops reading: output piles up in the node
                res.classes.append("tx-blocked")
                continue
            elif kind == "UNBLOCK_TX":
                if not blocked:
                    continue
                c.remote.sock.tx_blocked = False
                w.run()
                # everything queued meanwhile is flushed now (frame times = flush time): not judged by time
                n_out = len(c.refresh())
                blocked = False
                if not waiting and not c.node_closed and nc.state == pm.PEER_READY_WAITING_DWA:
                    # the wake-up caused by the socket becoming writable may itself find the idle timer expired
                    waiting = True
                    t_dwr = now() - nc.dwa_wait_time
                    episodes += 1
                continue
            elif kind == "DWR":
                hbh += 1
                flush_partial()
                w.feed_msg(c, {"k": "DWR", "host": H, "hbh": hbh, "e2e": hbh})
                fed = "DWR"
            elif kind == "DWA":
                hbh += 1
                # answer the outstanding DWR if there is one, else a stray DWA
                dwrs = [f for f in c.refresh() if f.code == W.CMD_DW and f.is_request]
                ids = {"hbh": dwrs[-1].h["hbh"], "e2e": dwrs[-1].h["e2e"]} if dwrs else {"hbh": hbh, "e2e": hbh}
                flush_partial()
                # whatever the DWA carries, it is the peer's sign of life: 2001, an error result or none at all
                variant = ev[1] if len(ev) > 1 else None
                extra_ = {"result": variant} if isinstance(variant, int) else ({"no_result": True} if variant == "none" else {})
                if variant is not None:
                    res.classes.append(f"dwa-result:{variant}")
                w.feed_msg(c, dict(ids, k="DWA", host=H, **extra_))
                fed = "DWA"
            new = c.refresh()[n_out:]
            n_out = len(c.out)
            if blocked and not waiting and not c.node_closed and nc.state == pm.PEER_READY_WAITING_DWA:
                # a DWR was queued behind the blocked socket: visible through the state marking only
                waiting = True
                t_dwr = now() - nc.dwa_wait_time
                episodes += 1
                if t_dwr - ref <= idle_T and fed is None:
                    res.v("C11/dwr-early", f"DWR queued {t_dwr - ref}s after the last bytes, idle timeout {idle_T}s")
            # frames the node wrote during this step, in order
            for f in ([] if blocked else new):
                if f.code == W.CMD_DW and f.is_request:
                    # a DWR from the node
                    if waiting:
                        res.v("C11/second-dwr", f"DWR at +{int(f.t) - int(W.sk.START_TIME)} while a DWA is outstanding since {t_dwr}")
                    ref_at = ref if fed is None else ref     # bytes fed in this step arrive at step start
                    if int(f.t) - ref_at <= idle_T:
                        res.v("C11/dwr-early", f"DWR {int(f.t) - ref_at}s after the last bytes, idle timeout {idle_T}s "
                              f"(node {t['idle']}, peer {t.get('p_idle')})")
                    osid = f.avp(W.ORIGIN_STATE)
                    waiting = True
                    t_dwr = int(f.t)
                    episodes += 1
                elif f.code == W.CMD_DW and not f.is_request:
                    rc = f.result_code()
                    osid = f.avp(W.ORIGIN_STATE)
                    if rc != 2001 or osid is None or int.from_bytes(osid.data, "big") != state_id:
                        res.v("C11/dwa-content", f"DWA result {rc}, Origin-State-Id {osid.data.hex() if osid else None}, expected 2001/{state_id}")
            if c.node_closed:
                # closure is judged first: bytes that arrive after a timer has already
                # expired may legitimately find the connection being closed
                tc = int(c.remote.closed_at)
                peer = w.node.peers["peer1.example"]
                if not waiting:
                    res.v("C11/closed-while-ready", f"connection closed at +{tc - int(W.sk.START_TIME)} without an outstanding DWR (reason {peer.disconnect_reason})")
                else:
                    if tc - t_dwr <= dwa_T:
                        res.v("C11/close-early", f"closed {tc - t_dwr}s after the DWR, DWA timeout {dwa_T}s")
                    if peer.disconnect_reason != pm.DISCONNECT_REASON_DWA_TIMEOUT:
                        res.v("C11/close-reason", f"disconnect_reason {peer.disconnect_reason}, expected DWA_TIMEOUT")
                    outcomes += 1
                closed_handled = True
                break
            if fed is not None:
                ref = now()
                if fed == "DWR" and not blocked:
                    dwas = [f for f in new if f.code == W.CMD_DW and not f.is_request and f.h["hbh"] == hbh]
                    if len(dwas) != 1:
                        res.v("C11/dwr-not-answered", f"DWR from the peer in state waiting={waiting}: {len(dwas)} DWA")
                if fed == "DWA" and waiting:
                    waiting = False
                    outcomes += 1
            nc_state = nc.state
            # state marking
            if waiting and nc_state != pm.PEER_READY_WAITING_DWA:
                res.v("C11/state-not-waiting", f"DWR outstanding but connection state is {nc_state:#x}")
            if not waiting and nc_state != pm.PEER_READY:
                res.v("C11/state-not-ready", f"no DWR outstanding but connection state is {nc_state:#x}")
            # promptness
            if not waiting and now() >= ref + idle_T + wake + 1:
                res.v("C11/dwr-late", f"idle for {now() - ref}s, idle timeout {idle_T}s, wakeup {wake}s, no DWR")
            if waiting and now() >= t_dwr + dwa_T + wake + 1:
                res.v("C11/close-late", f"DWA outstanding for {now() - t_dwr}s, DWA timeout {dwa_T}s, wakeup {wake}s, still open")
        if W.monitor_threads(w):
            res.classes.append("cross:thread-died")
        res.nontrivial = episodes >= 1 and outcomes >= 1
        if case.get("timers_after_peers"):
            res.classes.append("config-order:timers-after-peers")
        res.classes += [f"dir:{case['dir']}", f"episodes:{min(episodes, 3)}", f"outcomes:{min(outcomes, 3)}",
                        f"peer-idle:{bool(t.get('p_idle'))}", f"peer-dwa:{bool(t.get('p_dwa'))}",
                        "closed-by-watchdog" if closed_handled else "open-at-end"]
        res.sample = {"case": case, "transcript": w.summary()}
        return res
    finally:
        w.close()


def install_points():
    from dv import sched, simkernel as sk
    mods = sk.load_node()
    N, P = mods["node"].Node, mods["peer"].PeerConnection
    sched.clear()
    return sched.install({P.reset_last_dwr: None, P.reset_last_dwa: None, N.send_dwr: r"send_message|reset_last_dwr",
                          N.receive_dwa: None, N._check_timers: r"send_dwr|PEER_READY_STATES"})


def install_points_timer():
    from dv import sched, simkernel as sk
    mods = sk.load_node()
    N, P = mods["node"].Node, mods["peer"].PeerConnection
    sched.clear()
    return sched.install({P.dwa_wait_time: None, P.is_waiting_for_dwa: None, P.reset_last_dwa: None, N.receive_dwa: None,
                          N._check_timers: r"dwa_wait_time|PEER_READY_WAITING_DWA"})


def stray_dwa_vs_watchdog(decisions):
    """A DWA (a late or stray one) arrives in the I/O-loop turn in which the idle timer sends the node's DWR.  One
    schedule: afterwards the watchdog still works - with a silent peer the connection is closed with the
    watchdog-timeout reason within dwa timeout + wakeup + 1 seconds of the DWR."""
    from dv import sched
    w = W.NodeWorld({"peers": [{"name": "peer1.example", "ip": ["10.1.1.1"]}],
                     "apps": [{"app_id": 4, "auth": True, "peers": [0], "handler": "answer"}],
                     "node_timers": {"idle": 2, "dwa": 3, "cer": 30, "cea": 30, "wakeup": 1}})
    try:
        w.start()
        c = w.handshake_in("peer1.example", auth=[4], ip="10.1.1.1", hbh=0x100)
        t0 = w.k.now
        io = [t for t in w.k.threads if "_handle_connections" in t.name][0]
        while io.deadline is not None and int(io.deadline) - int(t0) <= 2:
            w.k.advance(io.deadline - w.k.now)
        if [f for f in c.refresh() if f.is_request and f.code == W.CMD_DW]:
            return [], [("setup", "the DWR went out before the turn under exploration")]
        due = io.deadline
        ex = sched.Explorer(decisions)
        sched.attach(w.k, ex)

        def feeder():
            w.k.block(lambda: False, timeout=50)
            w.feed_msg(c, {"k": "DWA", "host": "peer1.example", "hbh": 0x181, "e2e": 0x181}, run=False)
        w.k.spawn(feeder, name="feeder")
        w.k.run()
        [t for t in w.k.threads if t.name == "feeder"][0].deadline = due
        ex.armed = True
        w.k.advance(due - w.k.now)
        ex.armed = False
        w.k.run()
        problems = []
        dwrs = [f for f in c.refresh() if f.is_request and f.code == W.CMD_DW]
        # the peer is silent from now on: the stray DWA does not answer the node's DWR (other identifiers)
        w.advance(3 + 1 + 1 + 2 + 3)
        dwrs2 = [f for f in c.refresh() if f.is_request and f.code == W.CMD_DW]
        if not dwrs2:
            problems.append(("no-dwr", "no watchdog request within 9 s although the peer has been silent since its (stray) DWA; idle timeout 2 s"))
        elif not c.node_closed:
            problems.append(("silent-peer-not-closed", f"DWR at +{dwrs2[0].t - t0:g}s, no DWA for it, yet the connection is still open "
                             f"{w.k.now - dwrs2[0].t:g}s later (dwa timeout 3 s, wakeup 1 s)"))
        for sig, d in W.monitor_threads(w):
            problems.append((f"thread-died/{sig}", d))
        return ex.trace, problems, len(dwrs)
    finally:
        w.close()


def dwa_vs_timer(decisions):
    """The DWA arrives in the I/O-loop turn in which the timer pass looks at the connection that is waiting for it
    (1 s after the DWR, DWA timeout 20 s).  One schedule: the connection stays open and ready."""
    from dv import sched
    w = W.NodeWorld({"peers": [{"name": "peer1.example", "ip": ["10.1.1.1"]}],
                     "apps": [{"app_id": 4, "auth": True, "peers": [0], "handler": "answer"}],
                     "node_timers": {"idle": 2, "dwa": 20, "cer": 30, "cea": 30, "wakeup": 1}})
    try:
        w.start()
        c = w.handshake_in("peer1.example", auth=[4], ip="10.1.1.1", hbh=0x100)
        io = [t for t in w.k.threads if "_handle_connections" in t.name][0]
        dwrs = []
        for _ in range(8):
            w.k.advance(io.deadline - w.k.now)
            dwrs = [f for f in c.refresh() if f.is_request and f.code == W.CMD_DW]
            if dwrs:
                break
        if not dwrs:
            return [], [("setup", "no DWR within 8 turns")]
        due = io.deadline
        ex = sched.Explorer(decisions)
        sched.attach(w.k, ex)

        def feeder():
            w.k.block(lambda: False, timeout=50)
            w.feed_msg(c, {"k": "DWA", "host": "peer1.example", "hbh": dwrs[0].h["hbh"], "e2e": dwrs[0].h["e2e"]}, run=False)
        w.k.spawn(feeder, name="feeder")
        w.k.run()
        [t for t in w.k.threads if t.name == "feeder"][0].deadline = due
        ex.armed = True
        w.k.advance(due - w.k.now)
        ex.armed = False
        w.k.run()
        w.advance(1)
        problems = []
        if c.node_closed:
            peer = w.node.peers["peer1.example"]
            problems.append(("closed-although-dwa-arrived", f"the DWA came {due - dwrs[0].t:g}s after the DWR (timeout 20 s), yet the connection was closed, "
                             f"disconnect reason {peer.disconnect_reason:#x}"))
        for sig, d in W.monitor_threads(w):
            problems.append((f"thread-died/{sig}", d))
        return ex.trace, problems, 1
    finally:
        w.close()


def schedule_part(rec, shard, nshards, thorough):
    from dv import sched
    from dv.common import fp
    info = install_points()
    if shard == 0:
        rec.extra["preemption_functions"] = info
    holder = {}

    def run_one(dec):
        out = stray_dwa_vs_watchdog(dec)
        holder["last"] = out[1]
        holder["dwrs"] = out[2] if len(out) > 2 else 0
        return out[0]
    n = 0
    for dec, trace in sched.enumerate_schedules(run_one, 4 if thorough else 3, shard, nshards):
        case = {"stray_dwa_vs_watchdog": True, "schedule": {str(i): c for i, c in sorted(dec.items())}}
        for kind, detail in holder["last"]:
            rec.violation(f"C11/stray-dwa-vs-watchdog/{kind}", case, detail)
        n += 1
        rec.case(fp("sched", tuple(sorted(dec.items()))) if dec else None,
                 ["schedule-exploration", f"stray-dwa:dwr-in-turn:{holder['dwrs']}", f"deviations:{len(dec)}"],
                 sample=lambda: dict(case, choice_points=len(trace)))
    rec.extra["stray_dwa_schedules"] = rec.extra.get("stray_dwa_schedules", 0) + n
    install_points_timer()
    holder2 = {}

    def run_two(dec):
        out = dwa_vs_timer(dec)
        holder2["last"] = out[1]
        return out[0]
    n2 = 0
    for dec, trace in sched.enumerate_schedules(run_two, 3 if thorough else 2, shard, nshards):
        case = {"dwa_vs_timer": True, "schedule": {str(i): c for i, c in sorted(dec.items())}}
        for kind, detail in holder2["last"]:
            rec.violation(f"C11/dwa-vs-timer/{kind}", case, detail)
        n2 += 1
        rec.case(fp("sched-timer", tuple(sorted(dec.items()))) if dec else None,
                 ["schedule-exploration", "dwa-vs-timer", f"deviations:{len(dec)}"], sample=lambda: dict(case, choice_points=len(trace)))
    rec.extra["dwa_vs_timer_schedules"] = rec.extra.get("dwa_vs_timer_schedules", 0) + n2
    sched.clear()


def shard_main(shard, nshards, tier, scale):
    rec = Recorder(PID)
    thorough = tier == "thorough"
    shrunk = set()
    schedule_part(rec, shard, nshards, thorough)
    n = int((10000 if thorough else 800) * scale)

    @st.composite
    def cases(draw):
        small = draw(st.integers(0, 4)) > 0
        hi = 8 if small else 60
        timers = {"idle": draw(st.integers(1, hi)), "dwa": draw(st.integers(1, hi)),
                  "wakeup": draw(st.integers(1, 10 if not small else 4)),
                  "p_idle": draw(st.one_of(st.none(), st.integers(1, hi))),
                  "p_dwa": draw(st.one_of(st.none(), st.integers(1, hi)))}
        big = max(timers["idle"], timers["dwa"], timers["p_idle"] or 0, timers["p_dwa"] or 0)
        adv = st.tuples(st.just("ADV"), st.one_of(st.integers(1, 3), st.integers(1, max(2, big + 12))))
        ev = st.one_of(adv, adv, adv, adv, st.tuples(st.just("TRAFFIC")), st.tuples(st.just("DWR")), st.tuples(st.just("DWA")),
                       st.tuples(st.just("OUT")), st.tuples(st.just("OUT")),
                       st.tuples(st.just("DWA"), st.sampled_from([3004, 5012, "none"])),
                       st.tuples(st.just("BLOCK_TX")), st.tuples(st.just("UNBLOCK_TX")),
                       st.tuples(st.just("FRAG"), st.integers(1, 24)), st.tuples(st.just("FRAG"), st.integers(1, 24)))
        return {"dir": draw(st.sampled_from(["in", "out"])), "timers": timers, "seed": draw(st.integers(0, 3)),
                "spell": draw(st.sampled_from([None, None, "Peer1.EXAMPLE"])),
                "prelude": draw(st.sampled_from([None, None, "dpr", "close"])),
                "timers_after_peers": draw(st.booleans()),
                "events": [list(e) for e in draw(st.lists(ev, min_size=1, max_size=40))]}

    def body(case):
        res = evaluate(case)
        record(rec, case, res, evaluate, "events", shrunk)
    hyp.run_given(cases(), body, n, derive_seed(PID, "rand", shard), rec=rec)

    # systematic timings: every (idle, dwa, wakeup) in 1..4 x answer delay 0..dwa+wakeup+2
    jobs = []
    for idle in (1, 2, 3):
        for dwa in (1, 2, 3):
            for wake in (1, 2, 3):
                for delay in list(range(0, dwa + wake + 3)) + [None]:
                    for d in ("in", "out"):
                        jobs.append((idle, dwa, wake, delay, d))
    if shard == 0:
        rec.extra["systematic_timing_jobs"] = len(jobs)
    for (idle, dwa, wake, delay, d) in jobs[shard::nshards]:
        ev = []
        for s in range(idle + wake + 2):
            ev.append(["ADV", 1])
        if delay is None:
            ev += [["ADV", 1]] * (dwa + wake + 3)
        else:
            ev += [["ADV", 1]] * delay + [["DWA"] if (idle + dwa + wake + delay) % 3 else ["DWA", 3004]] + [["ADV", 1]] * (idle + wake + 2)
        case = {"dir": d, "timers": {"idle": idle, "dwa": dwa, "wakeup": wake, "p_idle": None, "p_dwa": None},
                "timers_after_peers": (idle + dwa + wake + (delay or 0)) % 2 == 0,
                "events": ev, "prelude": [None, "dpr", "close"][(idle + dwa + wake) % 3] if d == "in" else None}
        res = evaluate(case)
        res.classes.append("systematic")
        record(rec, case, res, evaluate, "events", shrunk)
    return rec.dump()


def run(tier, scale=1.0):
    t0 = time.time()
    rec = Recorder(PID)
    for d in hyp.pool_run(shard_main, (tier, scale)):
        rec.merge(d)
    required = {"node-sends-request": 1, "config-order:timers-after-peers": 1, "dwa-vs-timer": 1, "schedule-exploration": 1, "stray-dwa:dwr-in-turn:1": 1, "prelude:dpr": 1, "prelude:close": 1, "dwa-result:3004": 1, "dwa-result:none": 1, "identity:respelled": 1, "fragment": 1, "tx-blocked": 1, "dir:in": 1, "dir:out": 1, "episodes:2": 1, "closed-by-watchdog": 1, "peer-idle:True": 1,
                "peer-dwa:True": 1, "outcomes:2": 1}
    return finish(rec, tier=tier, level="exploration", rule=RULE, assumptions=ASSUME, t0=t0,
                  required_classes=required)


def replay(doc):
    if doc["case"].get("dwa_vs_timer"):
        install_points_timer()
        problems = dwa_vs_timer({int(i): c for i, c in doc["case"]["schedule"].items()})[1]
        sigs = [f"C11/dwa-vs-timer/{k}" for k, _ in problems]
        if doc["signature"] in sigs:
            print(f"  replayed: {problems[0][1][:300]}")
            print(f"VIOLATION property={PID} replay=(replay)")
            return 1
        print(f"[{PID}] replay: signature {doc['signature']} does not reproduce (got {sigs})")
        return 0
    if doc["case"].get("stray_dwa_vs_watchdog"):
        install_points()
        problems = stray_dwa_vs_watchdog({int(i): c for i, c in doc["case"]["schedule"].items()})[1]
        sigs = [f"C11/stray-dwa-vs-watchdog/{k}" for k, _ in problems]
        if doc["signature"] in sigs:
            print(f"  replayed: {problems[0][1][:300]}")
            print(f"VIOLATION property={PID} replay=(replay)")
            return 1
        print(f"[{PID}] replay: signature {doc['signature']} does not reproduce (got {sigs})")
        return 0
    return generic_replay(PID, evaluate, doc)
