"""C05 -- stream framing is chunking-invariant, ordered, exactly-once, always progresses.

A real PeerConnection (its reader thread simulated by E3) is fed byte streams
in generated chunkings; message_handler is a recorder.  Oracles: delivered ==
sent (valid streams, also around undecodable frames); for corrupted length
fields only progress: the reader ends blocked on input or the connection is
CLOSED, never spinning (deterministic loop-iteration budget), never dead with
the connection open.
"""
from __future__ import annotations

import itertools
import time

from hypothesis import strategies as st

from dv import hyp, refcodec as R, simkernel as sk, strategies as S
from dv.common import derive_seed, fp
from dv.evidence import Recorder, finish

PID = "C05"
RULE = ("streams of 1..6 messages (CER/DWR/DPR + application commands, 20 B..8 KiB) x chunkings: every "
        "1- and 2-cut position exhaustively for short streams, random k-cuts, byte-at-a-time and "
        "2048-byte reads for longer ones; undecodable frames (frame length right, body malformed) at "
        "every position; frames whose header length is 0, 1..19, shorter or longer than the frame at "
        "every position. Non-trivial: a cut inside a 20-byte header or a read spanning two frames, or a "
        "garbage/bad-length frame followed by a valid one; distinct by (stream hash, cut tuple).")
ASSUME = ["delivered messages are compared by header identifiers and by the re-encoding of an independent decode of the sent frame",
          "progress measure: loop iterations (sys.monitoring JUMP events in diameter code) per scheduling quantum <= 4000 + 60*len(stream); exceeding it is the spin verdict",
          "the connection is put in READY state directly (the CER/CEA gate is C06's subject)",
          "bad-length cases demand only progress (resynchronise, wait, or close), not a particular recovery"]


def make_messages():
    """A pool of valid frames built by E1 (independent of the library encoder)."""
    D = S.Dict()

    def avp(code, vendor, data, flags=0x40):
        return R.enc_avp(code, vendor, flags, data)
    oh = avp(264, 0, b"peer1.example")
    orr = avp(296, 0, b"example")
    pool = {}
    pool["DWR"] = R.enc_message(1, 0x80, 280, 0, 0x1001, 0x2001, oh + orr)
    pool["DWA"] = R.enc_message(1, 0x00, 280, 0, 0x1002, 0x2002, avp(268, 0, (2001).to_bytes(4, "big")) + oh + orr)
    pool["DPR"] = R.enc_message(1, 0x80, 282, 0, 0x1003, 0x2003, oh + orr + avp(273, 0, (0).to_bytes(4, "big")))
    pool["CER"] = R.enc_message(1, 0x80, 257, 0, 0x1004, 0x2004, oh + orr +
                                avp(257, 0, b"\x00\x01\x0a\x01\x01\x01") + avp(266, 0, (1).to_bytes(4, "big")) +
                                avp(269, 0, b"x", 0) + avp(258, 0, (4).to_bytes(4, "big")))
    pool["CCR"] = R.enc_message(1, 0xc0, 272, 4, 0x1005, 0x2005, avp(263, 0, b"s;1") + oh + orr +
                                avp(283, 0, b"example") + avp(258, 0, (4).to_bytes(4, "big")) +
                                avp(461, 0, b"ctx@x") + avp(416, 0, (1).to_bytes(4, "big")) +
                                avp(415, 0, (0).to_bytes(4, "big")))
    pool["EMPTY"] = R.enc_message(1, 0x80, 999, 7, 0x1006, 0x2006, b"")
    pool["UNK"] = R.enc_message(1, 0x40, 8388733, 9, 0x1007, 0x2007, avp(99999, 0, b"abc", 0) + avp(1, 0, b"user"))
    pool["BIG"] = R.enc_message(1, 0xc0, 272, 4, 0x1008, 0x2008, avp(263, 0, b"s;2") + oh + orr +
                                avp(283, 0, b"example") + avp(1, 0, b"u" * 7000))
    # reserved command-flag bits set (RFC 6733 3: "MUST be ignored by the receiver"), and every bit at once
    pool["DWR_RSV"] = R.enc_message(1, 0x88, 280, 0, 0x1009, 0x2009, oh + orr)
    pool["CCR_RSV"] = R.enc_message(1, 0xc1, 272, 4, 0x100a, 0x200a, avp(263, 0, b"s;3") + oh + orr +
                                    avp(283, 0, b"example") + avp(258, 0, (4).to_bytes(4, "big")) +
                                    avp(461, 0, b"ctx@x") + avp(416, 0, (1).to_bytes(4, "big")) +
                                    avp(415, 0, (0).to_bytes(4, "big")))
    pool["UNK_ALLFLAGS"] = R.enc_message(1, 0xff, 8388734, 9, 0x100b, 0x200b, avp(1, 0, b"user"))
    pool["DWA_RSV"] = R.enc_message(1, 0x06, 280, 0, 0x100c, 0x200c, avp(268, 0, (2001).to_bytes(4, "big")) + oh + orr)
    return pool


def reid(frame: bytes, n: int) -> bytes:
    """Give a frame unique hop-by-hop / end-to-end ids (so 'each once' is checkable)."""
    return frame[:12] + (0x10000 + n).to_bytes(4, "big") + (0x20000 + n).to_bytes(4, "big") + frame[20:]


def garbage_frame(kind: int, n: int) -> bytes:
    """Correct frame length, undecodable body."""
    if kind == 0:      # AVP claims to be longer than the frame
        body = (263).to_bytes(4, "big") + b"\x40" + (200).to_bytes(3, "big") + b"abcd"
    elif kind == 1:    # trailing fragment shorter than an AVP header
        body = R.enc_avp(263, 0, 0x40, b"ok") + b"\x00\x00\x01"
    elif kind == 2:    # vendor flag set, vendor id cut off
        body = (263).to_bytes(4, "big") + b"\xc0" + (12).to_bytes(3, "big")
    elif kind == 3:    # regular top-level chain, but a Grouped AVP whose member claims to be longer than the group
        inner = (432).to_bytes(4, "big") + b"\x40" + (64).to_bytes(3, "big") + b"\x00\x00\x00\x01"
        body = R.enc_avp(263, 0, 0x40, b"s;1") + R.enc_avp(456, 0, 0x40, inner)
    else:              # command without a python class carrying a known AVP with a payload of the wrong size
        body = R.enc_avp(264, 0, 0x40, b"peer1.example") + R.enc_avp(278, 0, 0x40, b"\x00\x01")
        return R.enc_header(1, 20 + len(body), 0x80, 999, 4, 0x30000 + n, 0x40000 + n) + body
    return R.enc_header(1, 20 + len(body), 0x80, 272, 4, 0x30000 + n, 0x40000 + n) + body


def with_len(frame: bytes, value: int) -> bytes:
    return frame[:1] + max(0, min(value, (1 << 24) - 1)).to_bytes(3, "big") + frame[4:]


def run_stream(stream: bytes, cuts, expected_frames, mode: str, rec: Recorder, case, seed=0):
    """Feed `stream` split at `cuts` into a fresh PeerConnection; check the oracle.
    mode: 'exact' (delivered must equal expected_frames) | 'progress'."""
    from diameter.message import Message
    mods = sk.load_node()
    peer = mods["peer"]
    k = sk.Kernel(seed=seed).install()
    k.quantum_budget = 4000 + 60 * len(stream)
    delivered = []
    try:
        r, w = sk._os_pipe()
        conn = peer.PeerConnection("10.1.1.1", 3868, peer.PEER_RECV, w)
        conn.ident = "0a0b0c0d0e0f"
        conn.state = peer.PEER_READY
        conn.message_handler = lambda c, m: delivered.append(m)
        k.run()
        pos = 0
        for c in list(cuts) + [len(stream)]:
            if c > pos:
                conn.add_in_bytes(stream[pos:c])
                pos = c
                k.run()
        reader = conn._read_thread._sim_tcb
        spun = [e for e in k.errors if e["exc_type"] == "SpinDetected"]
        other = [e for e in k.errors if e["exc_type"] != "SpinDetected"]
        if spun:
            rec.violation("C05/spin", case, f"reader loops without consuming input: {spun[0]['exc']}")
        elif k.livelock:
            rec.violation("C05/livelock", case, "threads keep switching without quiescing")
        for e in other:
            rec.violation(f"C05/reader-died/{e['exc_type']}", case, e["exc"] + " | " + e["tb"][-300:])
        if not spun and not other:
            if reader.state == sk.DONE and conn.state != peer.PEER_CLOSED:
                rec.violation("C05/reader-ended-connection-open", case,
                              f"reader thread ended while connection state is {conn.state:#x}")
            if reader.state != sk.DONE and conn.state == peer.PEER_CLOSED:
                # allowed only transiently: a closed connection's reader ends at its next poll
                k.advance(6)
                if reader.state != sk.DONE:
                    rec.violation("C05/closed-but-reader-alive", case, "")
        got = []
        for m in delivered:
            h = m.header
            got.append((h.command_code, h.hop_by_hop_identifier, h.end_to_end_identifier))
        exp = [(int.from_bytes(f[5:8], "big"), int.from_bytes(f[12:16], "big"),
                int.from_bytes(f[16:20], "big")) for f in expected_frames]
        if mode == "exact" and not spun:
            if got != exp:
                kind = ("lost" if len(got) < len(exp) else "duplicated-or-extra" if len(got) > len(exp)
                        else "reordered-or-altered")
                rec.violation(f"C05/delivery/{kind}", case, f"delivered {got} expected {exp}")
            else:
                for m, f in zip(delivered, expected_frames):
                    try:
                        if m.as_bytes() != Message.from_bytes(f).as_bytes():
                            rec.violation("C05/delivery/content", case, "delivered message differs from the frame sent")
                            break
                    except Exception:
                        pass
            if conn.state == peer.PEER_CLOSED:
                rec.violation("C05/closed-on-valid-input", case, "connection closed although every frame length was right")
            elif reader.state != sk.BLOCKED and not other:
                rec.violation("C05/reader-not-waiting", case, f"reader state {reader.state}")
        return got
    finally:
        k.shutdown()


def cut_class(stream_frames, cuts):
    """classification of a chunking: header cut / read spanning two frames."""
    bounds = list(itertools.accumulate(len(f) for f in stream_frames))
    starts = [0] + bounds[:-1]
    in_header = any(any(s < c < s + 20 for s in starts) for c in cuts)
    reads = list(zip([0] + list(cuts), list(cuts) + [bounds[-1]]))
    spanning = any(any(a < b_ < b for b_ in bounds[:-1]) for a, b in reads)
    return in_header, spanning


# --------------------------------------------------------------------------
def shard_main(shard, nshards, tier, scale):
    rec = Recorder(PID)
    pool = make_messages()
    thorough = tier == "thorough"
    names = sorted(pool)

    # ---- exhaustive 1- and 2-cuts on short streams
    short_streams = [("DWR", "DPR"), ("EMPTY", "DWR", "EMPTY"), ("DWA",), ("CER", "DWR")]
    if thorough:
        short_streams += [("DPR", "DWA", "EMPTY"), ("UNK", "DWR")]
    jobs = []
    for si, ns in enumerate(short_streams):
        frames = [reid(pool[n], i) for i, n in enumerate(ns)]
        L = sum(len(f) for f in frames)
        for c1 in range(1, L):
            jobs.append((si, (c1,)))
        stride = 1 if thorough else (2 if L < 140 else 3)
        for c1 in range(1, L, stride):
            for c2 in range(c1 + 1, L, stride):
                jobs.append((si, (c1, c2)))
    for (si, cuts) in jobs[shard::nshards]:
        ns = short_streams[si]
        frames = [reid(pool[n], i) for i, n in enumerate(ns)]
        stream = b"".join(frames)
        case = {"msgs": ns, "cuts": list(cuts), "kind": "valid"}
        run_stream(stream, cuts, frames, "exact", rec, case)
        ih, sp = cut_class(frames, cuts)
        rec.case(fp(si, cuts) if (ih or sp) else None,
                 ["cuts:exhaustive"] + (["cut-in-header"] if ih else []) + (["read-spans-frames"] if sp else []),
                 sample=lambda: case)
    rec.extra["exhaustive_cut_jobs"] = len(jobs)

    # ---- random streams / chunkings
    msgs = st.lists(st.sampled_from(names), min_size=1, max_size=6)

    @st.composite
    def valid_case(draw):
        ns = draw(msgs)
        L = sum(len(pool[n]) for n in ns)
        how = draw(st.sampled_from(["k-cuts", "k-cuts", "bytewise", "2048", "whole"]))
        if how == "k-cuts":
            cuts = sorted(set(draw(st.lists(st.integers(1, max(1, L - 1)), max_size=12))))
        elif how == "bytewise":
            cuts = list(range(1, L)) if L <= 600 else list(range(1, 600)) + [L // 2]
        elif how == "2048":
            cuts = list(range(2048, L, 2048))
        else:
            cuts = []
        return {"msgs": ns, "cuts": sorted(set(cuts)), "kind": "valid"}

    def vbody(case):
        frames = [reid(pool[n], i) for i, n in enumerate(case["msgs"])]
        run_stream(b"".join(frames), case["cuts"], frames, "exact", rec, case)
        ih, sp = cut_class(frames, case["cuts"])
        rec.case(fp(tuple(case["msgs"]), tuple(case["cuts"])) if (ih or sp) else None,
                 ["cuts:random", f"nmsgs:{len(frames)}"] + (["cut-in-header"] if ih else []) +
                 (["read-spans-frames"] if sp else []) + (["big-message"] if "BIG" in case["msgs"] else []),
                 sample=lambda: dict(case, cuts=case["cuts"][:20]))
    hyp.run_given(valid_case(), vbody, int((6000 if thorough else 500) * scale), derive_seed(PID, "valid", shard), rec=rec)

    # ---- undecodable frames at every position
    @st.composite
    def garbage_case(draw):
        ns = draw(st.lists(st.sampled_from([n for n in names if n != "BIG"]), min_size=1, max_size=5))
        npos = draw(st.lists(st.integers(0, len(ns)), min_size=1, max_size=2))
        kinds = [draw(st.integers(0, 4)) for _ in npos]
        L = sum(len(pool[n]) for n in ns) + 40 * len(npos)
        how = draw(st.sampled_from(["random", "random", "bytewise", "inside-garbage"]))
        if how == "bytewise":
            cuts = list(range(1, L))
        else:
            cuts = sorted(set(draw(st.lists(st.integers(1, L), max_size=8))))
            if how == "inside-garbage":
                # cut inside the first garbage frame (after its header) and shortly after its end
                start = sum(len(pool[n]) for n in ns[:min(npos)])
                cuts = sorted(set(cuts + [start + draw(st.integers(20, 31)), start + 32 + draw(st.integers(0, 19))]))
        return {"msgs": ns, "garbage_at": npos, "garbage_kind": kinds, "cuts": cuts, "kind": "garbage"}

    def gbody(case):
        frames = [reid(pool[n], i) for i, n in enumerate(case["msgs"])]
        seq = [("v", f) for f in frames]
        for j, (p, kd) in enumerate(sorted(zip(case["garbage_at"], case["garbage_kind"]), reverse=True)):
            seq.insert(p, ("g", garbage_frame(kd, j)))
        stream = b"".join(f for _, f in seq)
        cuts = [c for c in case["cuts"] if c < len(stream)]
        run_stream(stream, cuts, frames, "exact", rec, case)
        followed = any(a[0] == "g" and b[0] == "v" for a, b in zip(seq, seq[1:]))
        rec.case(fp("g", tuple(case["msgs"]), tuple(case["garbage_at"]), tuple(case["garbage_kind"]), tuple(cuts))
                 if followed else None, ["garbage-frame"] + (["garbage-then-valid"] if followed else []),
                 sample=lambda: case)
    hyp.run_given(garbage_case(), gbody, int((6000 if thorough else 500) * scale), derive_seed(PID, "garbage", shard), rec=rec)

    # ---- corrupted length fields at every position (progress only)
    len_values = [0] + list(range(1, 20)) + ["real-1", "real-4", "real+1", "real+4", "real+300", 20, (1 << 24) - 1]
    ljobs = []
    for ns in (("DWR",), ("DWR", "DPR"), ("EMPTY", "CCR", "DWA"), ("CER", "EMPTY")):
        for pos in range(len(ns)):
            for lv in len_values:
                for cutmode in ("whole", "bytewise", "split-header"):
                    ljobs.append((ns, pos, lv, cutmode))
    for (ns, pos, lv, cutmode) in ljobs[shard::nshards]:
        frames = [reid(pool[n], i) for i, n in enumerate(ns)]
        real = len(frames[pos])
        v = lv if isinstance(lv, int) else real + int(lv[4:])
        bad = list(frames)
        bad[pos] = with_len(frames[pos], v)
        stream = b"".join(bad)
        cuts = [] if cutmode == "whole" else list(range(1, len(stream))) if cutmode == "bytewise" else \
            [sum(len(f) for f in bad[:pos]) + 3]
        case = {"msgs": ns, "bad_length_at": pos, "length_value": v, "real_length": real, "cuts": cutmode,
                "kind": "bad-length"}
        got = run_stream(stream, cuts, [], "progress", rec, case)
        # frames in front of the corrupted one must still have been delivered, in order
        exp_prefix = [(int.from_bytes(f[5:8], "big"), int.from_bytes(f[12:16], "big"),
                       int.from_bytes(f[16:20], "big")) for f in frames[:pos]]
        if got is not None and got[:len(exp_prefix)] != exp_prefix:
            rec.violation("C05/delivery/before-bad-length", case, f"{got} does not start with {exp_prefix}")
        rec.case(fp("l", ns, pos, v, cutmode) if pos < len(ns) - 1 or v != real else None,
                 [f"bad-length:{'zero' if v == 0 else 'lt20' if v < 20 else 'short' if v < real else 'long'}"],
                 sample=lambda: case)
    rec.extra["bad_length_jobs"] = len(ljobs)

    # ---- the same property through a node's socket: recv(2048) boundaries + the I/O loop participate
    from dv import world as W

    @st.composite
    def node_case(draw):
        n = draw(st.integers(1, 6))
        sizes = [draw(st.sampled_from([0, 0, 10, 1500, 2040, 2048, 3000, 6000])) for _ in range(n)]
        total = sum(s_ + 220 for s_ in sizes)
        # read boundaries: anywhere, and at / next to multiples of the node's 2048-byte read size
        cut = st.one_of(st.integers(1, max(1, total)),
                        st.integers(1, max(1, total // 2048)).map(lambda k_: 2048 * k_),
                        st.tuples(st.integers(1, max(1, total // 2048)), st.sampled_from([-1, 1])).map(lambda t_: 2048 * t_[0] + t_[1]))
        cuts = sorted(set(draw(st.lists(cut, max_size=10))))
        # paced: every piece arrives after the previous one has been read (nothing else is pending at that moment)
        return {"sizes": sizes, "cuts": cuts, "kind": "node-socket", "yield_all": draw(st.booleans()), "seed": draw(st.integers(0, 5)),
                "paced": draw(st.booleans())}

    def nbody(case):
        w = W.NodeWorld({"peers": [{"name": "peer1.example", "ip": ["10.1.1.1"]}],
                         "apps": [{"app_id": 4, "auth": True, "peers": [0], "handler": "answer"}],
                         "sched_seed": case["seed"], "yield_all": case["yield_all"],
                         "node_timers": {"idle": 5000, "dwa": 50, "cer": 50, "cea": 50, "wakeup": 3}})
        try:
            w.start()
            c = w.handshake_in("peer1.example", auth=[4])
            frames = []
            for i, sz in enumerate(case["sizes"]):
                extra = [R.enc_avp(1, 0, 0x40, b"u" * sz).hex()] if sz else []
                frames.append(W.build_msg({"k": "REQ", "host": "peer1.example", "hbh": 0x5000 + i, "e2e": 0x5000 + i, "extra": extra}))
            stream = b"".join(frames)
            cuts_ = [x for x in case["cuts"] if 0 < x < len(stream)]
            if case.get("paced"):
                pos = 0
                for x in cuts_ + [len(stream)]:
                    w.feed(c, stream[pos:x])
                    pos = x
            else:
                w.feed(c, stream, cuts_)
            w.advance(1)
            got = [r["hbh"] for r in w.requests_seen]
            exp = [0x5000 + i for i in range(len(frames))]
            if got != exp:
                rec.violation("C05/node-socket/delivery", case, f"application saw {got}, sent {exp}")
            ans = [f.h["hbh"] for f in c.refresh() if not f.is_request and f.code == 272]
            if ans != exp:
                rec.violation("C05/node-socket/answers", case, f"answers {ans}, expected {exp}")
            big = any(sz > 2048 for sz in case["sizes"])
            rec.case(fp("ns", tuple(case["sizes"]), tuple(case["cuts"])), ["node-socket"] + (["node-socket:frame>2048"] if big else []) + (["node-socket:paced"] if case.get("paced") else []) +
                     (["node-socket:piece-of-2048k-bytes"] if case.get("paced") and any((b_ - a_) % 2048 == 0 for a_, b_ in zip([0] + cuts_, cuts_ + [len(stream)])) else []),
                     sample=lambda: case)
        finally:
            w.close()
    hyp.run_given(node_case(), nbody, int((3000 if thorough else 250) * scale), derive_seed(PID, "node", shard), rec=rec)
    return rec.dump()


def run(tier, scale=1.0):
    t0 = time.time()
    rec = Recorder(PID)
    for d in hyp.pool_run(shard_main, (tier, scale)):
        rec.merge(d)
    required = {"cut-in-header": 1, "read-spans-frames": 1, "garbage-then-valid": 1, "bad-length:zero": 1,
                "bad-length:lt20": 1, "bad-length:short": 1, "bad-length:long": 1, "big-message": 1, "node-socket:frame>2048": 1, "node-socket:paced": 1, "node-socket:piece-of-2048k-bytes": 1}
    return finish(rec, tier=tier, level="exploration", rule=RULE, assumptions=ASSUME, t0=t0,
                  required_classes=required,
                  extra_cov={"exhaustive_part": "every 1-cut and (strided in quick, complete in thorough) 2-cut position of the short streams; every length-field value class x position x chunk mode"})


def replay(doc):
    rec = Recorder(PID)
    pool = make_messages()
    case = doc["case"]
    frames = [reid(pool[n], i) for i, n in enumerate(case["msgs"])]
    if case["kind"] == "node-socket":
        print(f"[{PID}] replay of node-socket cases: re-run the check")
        return 2
    if case["kind"] == "valid":
        run_stream(b"".join(frames), case["cuts"], frames, "exact", rec, case)
    elif case["kind"] == "garbage":
        seq = [("v", f) for f in frames]
        for j, (p, kd) in enumerate(sorted(zip(case["garbage_at"], case["garbage_kind"]), reverse=True)):
            seq.insert(p, ("g", garbage_frame(kd, j)))
        stream = b"".join(f for _, f in seq)
        run_stream(stream, [c for c in case["cuts"] if c < len(stream)], frames, "exact", rec, case)
    else:
        bad = list(frames)
        bad[case["bad_length_at"]] = with_len(frames[case["bad_length_at"]], case["length_value"])
        stream = b"".join(bad)
        cm = case["cuts"]
        cuts = [] if cm == "whole" else list(range(1, len(stream))) if cm == "bytewise" else \
            [sum(len(f) for f in bad[:case["bad_length_at"]]) + 3]
        run_stream(stream, cuts, [], "progress", rec, case)
    if doc["signature"] in rec.violations:
        print(f"  replayed: {rec.violations[doc['signature']]['detail'][:300]}")
        print(f"VIOLATION property={PID} replay=(replay)")
        return 1
    print(f"[{PID}] replay: signature does not reproduce")
    return 0
