"""C12 -- disconnect-peer handling and reconnect policy.

Histories of connection outcomes (refused synchronously, in-progress then
success/failure, CEA rejected, CEA timeout, peer gone, socket error, DPR from
the peer) x peer flags (persistent, always_reconnect, reconnect_wait, with /
without addresses) x clock advances over several reconnect cycles.
Reference model (observer): every connect() call on the virtual socket layer
must be legal at its instant, a due dial must happen within its promptness
window, DPR is answered 2001 and takes the connection out of routing, never
two self-initiated live connections to one peer.
"""
from __future__ import annotations

import time

from hypothesis import strategies as st

from dv import hyp, world as W
from dv.common import derive_seed
from dv.evidence import Recorder, finish
from checks.nodecommon import Result, record, generic_replay

PID = "C12"
RULE = ("histories of 1..30 events {advance, complete pending connect ok/fail, answer CER 2001/3010, peer "
        "closes, reset, DPR (+close), inbound handshake by the peer} x dial outcome plans {immediate, "
        "in-progress, synchronous error} x flags {persistent, always_reconnect, reconnect_wait 1..60, "
        "addresses present/absent} x wakeup 1..6; every interleaving (<= 2 deviations, line granularity in "
        "_reconnect_peers and stop) of Node.stop() racing with a due reconnect pass; a second, non-persistent peer with addresses is always "
        "configured. Non-trivial: >= 1 loss of a persistent peer's connection followed by >= "
        "reconnect_wait of clock; distinct by (flags, script).")
ASSUME = ["a dial is legal iff the peer is persistent, has addresses, has no live connection, has been disconnected, "
          "int(now)-int(loss) >= reconnect_wait, and not (loss followed a DPR and not always_reconnect); the initial dial at start is legal for persistent peers",
          "promptness: a legal dial happens by loss + reconnect_wait + wakeup + 1",
          "loss instant = the instant the node closed the socket (for a synchronously refused dial: the dial instant)"]


def world_cfg(case):
    f = case["flags"]
    p1 = {"name": "peer1.example", "ip": ["10.1.1.1"] if f["addr"] else [], "persistent": f["persistent"],
          "always_reconnect": f["always"], "reconnect_wait": f["wait"]}
    p2 = {"name": "peer2.example", "ip": ["10.1.1.2"], "persistent": False}
    return {"peers": [p1, p2], "apps": [{"app_id": 4, "auth": True, "peers": [0, 1], "handler": "answer"}],
            "node_timers": {"idle": f.get("idle", 1000), "dwa": 10, "cer": 3, "cea": 3, "wakeup": f["wakeup"]},
            "default_dial": "inprogress", "sched_seed": case.get("seed", 0)}


def evaluate(case) -> Result:
    res = Result()
    f = case["flags"]
    w = W.NodeWorld(world_cfg(case))
    w.dial_plan["10.1.1.1"] = [tuple(o) if isinstance(o, list) else o for o in case.get("dial_plan", [])]
    try:
        pm = w.mods["peer"]
        NotRoutable = w.mods["node"].NotRoutable
        t_start = int(w.k.now)
        w.start()
        wake, wait = f["wakeup"], f["wait"]
        seen_calls = 0
        last_disc = None
        reason_dpr = False
        losses = 0
        waited = False
        dpr_on = set()           # conn idx on which a DPR was received
        known_closed = set()
        initial_ok = f["persistent"] and f["addr"]
        hbh = 0x7000

        live_out = set()         # cids of self-initiated connections to peer1 that are live
        live_in = set()          # cids of inbound connections identified as peer1
        inbound_cids = {}        # cid -> Conn for inbound handshakes by peer1
        dpr_cids = set()
        closed_cids = set()
        dpr_conns = []
        simul_open = set()       # inbound connections of peer1 identified while a self-initiated one was live
        log_pos = [0]
        state = {"last_disc": None, "reason_dpr": False, "losses": 0, "initial_ok": initial_ok, "waited": False,
                 "late_reported_for": None}

        def live_p1():
            return live_out | live_in

        def observe(step):
            log = w.net.log
            for (t, kind, cid, data) in log[log_pos[0]:]:
                ti = int(t)
                if kind in ("connect", "connect-sync-error"):
                    addr = data if kind == "connect" else data[0]
                    if addr[0] == "10.1.1.2":
                        res.v("C12/dial/non-persistent", f"non-persistent peer2 dialled at +{ti - t_start}")
                        continue
                    ok, why = False, ""
                    ld = state["last_disc"]
                    if not f["persistent"]:
                        why = "peer is not persistent"
                    elif live_p1():
                        why = "a connection to the peer is still live"
                    elif ti == t_start and state["initial_ok"]:
                        ok = True
                    elif ld is None:
                        why = "never disconnected"
                    elif ti - ld < wait:
                        why = f"too early: only {ti - ld}s after the loss"
                    elif state["reason_dpr"] and not f["always"]:
                        why = "loss followed a DPR and the peer is not always_reconnect"
                    else:
                        ok = True
                    state["initial_ok"] = False
                    if w.stop_box is not None:
                        ok, why = False, "node is stopping"
                    if not ok and why.startswith("a connection") and not live_out and live_in and live_in <= simul_open:
                        res.v("C12/dial/illegal/live-inbound-after-simultaneous-open",
                              f"connect() to peer1 at +{ti - t_start} while its inbound connection (accepted while a "
                              f"self-initiated one existed) is live and ready but not referenced by Peer.connection")
                    elif not ok:
                        res.v("C12/dial/illegal/" + why.split(":")[0].replace(" ", "-")[:44],
                              f"connect() to peer1 at +{ti - t_start}: {why}; reconnect_wait {wait}s, last loss "
                              f"{None if ld is None else ld - t_start} (flags {f})")
                    if ld is not None and ti - ld >= wait:
                        state["waited"] = True
                    if kind == "connect":
                        live_out.add(cid)
                        if len(live_out) > 1:
                            res.v("C12/two-self-initiated", f"{len(live_out)} live self-initiated connections to peer1 at +{ti - t_start}")
                    else:
                        state["last_disc"], state["reason_dpr"] = ti, False
                        state["losses"] += 1
                elif kind == "feed" and cid in inbound_cids and cid not in closed_cids:
                    if cid not in live_in and live_out:
                        simul_open.add(cid)
                    live_in.add(cid)      # identified as peer1 from the instant its CER arrived
                elif kind == "close" and cid is not None:
                    closed_cids.add(cid)
                if kind == "close" and cid is not None and (cid in live_out or cid in live_in):
                    live_out.discard(cid)
                    live_in.discard(cid)
                    state["last_disc"], state["reason_dpr"] = ti, cid in dpr_cids
                    state["losses"] += 1
            log_pos[0] = len(log)
            # a connection on which a DPR was answered is out of service for good
            for dc in dpr_conns:
                ncx = w.node_conn_for(dc)
                if ncx is not None and ncx.state in pm.PEER_READY_STATES:
                    res.v("C12/dpr/ready-again", f"conn {dc.idx} received a DPR (answered 2001) and is in state {ncx.state:#x} again at step {step}")
            # promptness
            now = int(w.k.now)
            ld = state["last_disc"]
            if f["persistent"] and f["addr"] and not live_p1() and ld is not None and \
                    not (state["reason_dpr"] and not f["always"]) and w.stop_box is None:
                if now >= ld + wait + wake + 1 and state["late_reported_for"] != ld:
                    state["late_reported_for"] = ld
                    res.v("C12/dial/late", f"connection lost at +{ld - t_start}, reconnect_wait {wait}s, wakeup {wake}s, "
                          f"now +{now - t_start}: no dial (flags {f})")

        def note_sync_refusals():
            pass

        note_sync_refusals()
        observe(-1)
        busy = None
        if case.get("busy_peer2"):
            busy = w.handshake_in("peer2.example", auth=[4], ip="10.1.1.2", hbh=0x2f0)
            res.classes.append("other-peer-busy")
        for i, ev in enumerate(case["events"]):
            kind = ev[0]
            cur = None
            for c in reversed(w.conns):
                if (c.host == "peer1.example" or (c.remote.addr and c.remote.addr[0] == "10.1.1.1")) and not c.node_closed \
                        and not c.peer_closed:
                    cur = c
                    break
            if kind == "ADV":
                # step second by second so that every dial is observed at its own instant
                for _ in range(ev[1]):
                    if busy is not None and not busy.node_closed:
                        # another peer keeps talking: the I/O loop never sits out a whole wake-up interval
                        hbh += 1
                        w.feed_msg(busy, {"k": "DWR", "host": "peer2.example", "hbh": hbh, "e2e": hbh})
                    w.advance(1)
                    note_sync_refusals()
                    observe(i)
            elif kind == "CONNECT_OK" and cur is not None:
                w.connect_result(cur, True)
            elif kind == "CONNECT_FAIL" and cur is not None:
                w.connect_result(cur, False, 111)
            elif kind == "CEA" and cur is not None and cur.remote.direction == "out":
                w.answer_cer(cur, ev[1], auth=(4,), host="peer1.example", spelled=case.get("spell"))
            elif kind == "INBOUND" and not live_p1():
                ld = state["last_disc"]
                dial_due = f["persistent"] and f["addr"] and (
                    (ld is not None and int(w.k.now) - ld >= wait and not (state["reason_dpr"] and not f["always"])))
                if dial_due and not case.get("allow_known"):
                    # known finding (simultaneous open): the accept wakes the I/O loop, which dials in the same turn
                    res.classes.append("excluded:simultaneous-open")
                    continue
                ci = w.handshake_in("peer1.example", auth=[4], ip="10.1.1.1", hbh=0x200 + i, spelled=case.get("spell"))
                if ci is not None:
                    inbound_cids[ci.remote.cid] = ci
            elif kind == "INBOUND2" and live_out and not live_in and not case.get("allow_known"):
                # the peer opens a second connection while the node's own, ready connection to it is up
                own = [c for c in w.conns if c.remote.cid in live_out]
                nco = w.node_conn_for(own[0]) if own else None
                if nco is not None and nco.state in pm.PEER_READY_STATES:
                    ci = w.handshake_in("peer1.example", auth=[4], ip="10.1.1.1", hbh=0x200 + i, spelled=case.get("spell"))
                    if ci is not None:
                        inbound_cids[ci.remote.cid] = ci
                        res.classes.append("second-connection-by-the-peer")
            elif kind == "DWA":
                # a DWA on the newest connection of peer1 that is still open on the peer's side (also one that got a DPR)
                tgt = [c for c in w.conns if (c.host == "peer1.example") and not c.node_closed and not c.peer_closed]
                if tgt:
                    hbh += 1
                    w.feed_msg(tgt[-1], {"k": "DWA", "host": case.get("spell") or "peer1.example", "hbh": hbh, "e2e": hbh})
                    res.classes.append("dwa-event")
            elif kind == "CLOSE" and cur is not None:
                w.peer_close(cur)
            elif kind == "RESET" and cur is not None:
                w.peer_reset(cur)
            elif kind in ("WRITE_FAIL", "GARBAGE_BLOCKED") and cur is not None and not cur.node_closed and not cur.peer_closed:
                # socket error while output is pending: the node's write fails hard (WRITE_FAIL), or the peer has stopped
                # reading and sends bytes that are no diameter message (GARBAGE_BLOCKED) - the connection is lost
                hbh += 1
                nc_ = w.node_conn_for(cur)
                was_ready = nc_ is not None and nc_.state in pm.PEER_READY_STATES     # the DWR below is answered only then
                if kind == "WRITE_FAIL":
                    cur.remote.fail_writes(32)
                else:
                    cur.remote.sock.tx_blocked = True
                raw = W.build_msg({"k": "DWR", "host": case.get("spell") or "peer1.example", "hbh": hbh, "e2e": hbh})
                cur.remote.send(raw)
                cur.in_frames.append(W.Frame(w.k.now, raw))
                w.run()
                if kind == "GARBAGE_BLOCKED":
                    cur.remote.send(bytes(20))
                    w.run()
                cur.peer_closed = True
                w.run()
                w.sync_dialed()
                res.classes.append(f"loss:{kind.lower()}")
                if was_ready and not cur.node_closed:
                    # the connection is lost for the node as well: it gives the socket up at once (no timer is involved),
                    # which is what starts the peer's reconnect wait
                    res.v(f"C12/socket-error/not-given-up/{kind.lower()}",
                          f"after the {'failed write' if kind == 'WRITE_FAIL' else 'garbage of a peer that does not read'} the node keeps the socket open "
                          f"(connection state {getattr(w.node_conn_for(cur), 'state', None)})")
            elif kind in ("DPR", "DPR_CLOSE") and cur is not None:
                if live_out and live_in and not case.get("allow_known"):
                    # the peer has two live connections (known finding: the election of RFC 6733 5.6.4 never runs, only
                    # one of them is the peer's connection): which of them a DPR concerns at peer level - recorded
                    # reason vs redial of the other - has no right answer there; not generated, counted
                    res.classes.append("excluded:dpr-while-two-connections")
                    continue
                nc = w.node_conn_for(cur)
                ready = nc is not None and nc.state in pm.PEER_READY_STATES
                # a DWA that is already overdue: the I/O-loop turn woken by the DPR checks the timers first
                overdue = ready and nc.is_waiting_for_dwa and nc.dwa_wait_time >= 10
                hbh += 1
                n0 = len(cur.refresh())
                w.feed_msg(cur, {"k": "DPR", "host": case.get("spell") or "peer1.example", "hbh": hbh, "e2e": hbh})
                if overdue and cur.refresh() is not None and cur.node_closed and \
                        w.node.peers["peer1.example"].disconnect_reason == pm.DISCONNECT_REASON_DWA_TIMEOUT:
                    res.classes.append("dpr-after-watchdog-expiry")
                    ready = False
                if not ready and cur.remote.cid in dpr_cids and nc is not None and not overdue:
                    # the peer repeats its DPR on the connection it has already announced to leave (the first DPA got lost,
                    # say): a received DPR is answered, and the recorded reason stays
                    res.classes.append("dpr-repeated")
                    if not cur.node_closed:
                        dpas = [x for x in cur.refresh()[n0:] if x.code == W.CMD_DP and not x.is_request and x.h["hbh"] == hbh]
                        if len(dpas) != 1 or dpas[0].result_code() != 2001:
                            res.v("C12/dpr/repeated/answer", f"second DPR on the connection answered with {[x.brief() for x in cur.out[n0:]]}")
                if ready:
                    dpr_cids.add(cur.remote.cid)
                    dpr_conns.append(cur)
                    dpas = [x for x in cur.refresh()[n0:] if x.code == W.CMD_DP and not x.is_request and x.h["hbh"] == hbh]
                    if len(dpas) != 1 or dpas[0].result_code() != 2001:
                        res.v("C12/dpr/answer", f"DPR answered with {[x.brief() for x in cur.out[n0:]]}")
                    peer = w.node.peers["peer1.example"]
                    if peer.disconnect_reason != pm.DISCONNECT_REASON_DPR:
                        res.v("C12/dpr/reason", f"disconnect_reason {peer.disconnect_reason} after a DPR")
                    # no longer offered for routing
                    from diameter.message.commands import CreditControlRequest
                    msg = CreditControlRequest()
                    msg.destination_realm = W.NODE_REALM.encode()
                    msg.header.end_to_end_identifier = 0x7100 + i
                    try:
                        conn_sel, _ = w.node.route_request(w.apps[0], msg)
                        if conn_sel is nc:
                            res.v("C12/dpr/still-routable", "route_request returned the connection that received a DPR")
                    except NotRoutable:
                        pass
                    res.classes.append("dpr-on-ready")
                if kind == "DPR_CLOSE":
                    w.peer_close(cur)
            note_sync_refusals()
            observe(i)
        if W.monitor_threads(w):
            res.classes.append("cross:thread-died")
        losses, waited, reason_dpr = state["losses"], state["waited"], state["reason_dpr"]
        res.nontrivial = f["persistent"] and losses >= 1 and waited
        res.classes += ["identity:respelled" if case.get("spell") else "identity:as-configured",
                        f"persistent:{f['persistent']}", f"always:{f['always']}", f"addr:{f['addr']}",
                        f"losses:{min(losses, 3)}", f"dials:{min(len(w.net.connect_calls), 4)}",
                        "reason-dpr" if reason_dpr else "reason-other"]
        res.sample = {"case": case, "connects": [(int(t) - t_start, a[0]) for t, a, _ in w.net.connect_calls][:10]}
        return res
    finally:
        w.close()


def install_points(which="stop"):
    from dv import sched, simkernel as sk
    mods = sk.load_node()
    N = mods["node"].Node
    sched.clear()
    if which == "cea-fin":
        return sched.install({N.remove_peer_connection: None, N._flag_connection_as_ready: None, N._assign_peer_connection: None,
                              N.close_connection_socket: None, N.receive_cea: r"_assign_peer_connection|_flag_connection_as_ready",
                              N._handle_connections: r"\.recv\(|add_in_bytes|close_connection_socket\("})
    if which == "dpr":
        P = mods["peer"].PeerConnection
        return sched.install({P.reset_last_dwr: None, N.send_dwr: r"send_message|reset_last_dwr", N.receive_dpr: None,
                              N._check_timers: r"send_dwr|PEER_READY_STATES"})
    if which == "start":
        # start() against the I/O loop it has just started: the loop's walk over its socket table, and the table insertions
        extra = {N._open_peer_connection: r"connect\(|socket not yet ready|host_ip_address|PEER_CONNECTED|send_cer|demand_attention"} \
            if hasattr(N, "_open_peer_connection") else {}
        return sched.install({N.start: r"_connect_to_peer|for peer", **extra,
                              N._add_peer_connection: r"peer_sockets\[|socket_peers\[|self\.connections\[",
                              N._handle_connections: r"peer_sockets\.items|self\.connections\.get|_list\.append"})
    # preemption at the lines of the reconnect pass, of stop(), of the dial and of the registration of the new connection
    pts = {N._reconnect_peers: None, N.stop: None, N._add_peer_connection: None, N._connect_to_peer: None}
    if hasattr(N, "_open_peer_connection"):
        pts[N._open_peer_connection] = None
    return sched.install(pts)


def stop_race(decisions, force):
    """A reconnect is due in the same I/O-loop turn in which another thread calls Node.stop():
    one schedule of the exploration.  Returns (trace, dials made while the node was stopping)."""
    from dv import sched
    w = W.NodeWorld({"peers": [{"name": "peer1.example", "ip": ["10.1.1.1"], "persistent": True, "reconnect_wait": 1}],
                     "apps": [{"app_id": 4, "auth": True, "peers": [0], "handler": "answer"}],
                     "node_timers": {"idle": 1000, "dwa": 10, "cer": 3, "cea": 3, "wakeup": 1}, "default_dial": "ok"})
    try:
        w.start()
        c = w.conns[0]
        w.answer_cer(c, 2001, auth=(4,), host="peer1.example")
        w.peer_close(c)                      # loss at +0: a redial is due from +1 on
        while_stopping = []

        def policy(sock, addr):
            if w.node._stopping:
                while_stopping.append((w.k.now, addr))
            return "ok"
        w.net.dial_policy = policy
        ex = sched.Explorer(decisions)
        sched.attach(w.k, ex)
        ex.armed = True
        w.k.run()
        io = [t for t in w.k.threads if "_handle_connections" in t.name][0]
        due = io.deadline                    # the I/O loop's next wake-up: timers, then the reconnect pass

        def stopper():
            w.k.block(lambda: False, timeout=5)
            w.node.stop(wait_timeout=3, force=force)
        w.k.spawn(stopper, name="stopper")
        w.k.run()
        [t for t in w.k.threads if t.name == "stopper"][0].deadline = due        # ... and another thread calls stop() at that very instant
        w.k.advance(1.5)
        ex.armed = False
        w.k.advance(8)
        return ex.trace, while_stopping
    finally:
        w.close()


def dpr_vs_watchdog(decisions):
    """The peer's DPR arrives in the very I/O-loop turn in which the idle timer makes the node send a DWR on that
    connection.  One schedule: the DPR gets its 2001 DPA and the connection is not offered for routing afterwards -
    also after the DWA of the watchdog exchange has come in."""
    from dv import sched
    from diameter.message.commands import CreditControlRequest
    w = W.NodeWorld({"peers": [{"name": "peer1.example", "ip": ["10.1.1.1"]}],
                     "apps": [{"app_id": 4, "auth": True, "peers": [0], "handler": "answer"}],
                     "node_timers": {"idle": 2, "dwa": 10, "cer": 30, "cea": 30, "wakeup": 1}})
    try:
        NotRoutable = w.mods["node"].NotRoutable
        w.start()
        c = w.handshake_in("peer1.example", auth=[4], ip="10.1.1.1", hbh=0x100)
        t0 = w.k.now
        io = [t for t in w.k.threads if "_handle_connections" in t.name][0]
        while io.deadline is not None and int(io.deadline) - int(t0) <= 2:
            w.k.advance(io.deadline - w.k.now)           # turns in which the connection is not yet idle
            if [f for f in c.refresh() if f.is_request and f.code == 280]:
                return [], [("setup", "the DWR went out before the turn under exploration")], 0
        due = io.deadline
        ex = sched.Explorer(decisions)
        sched.attach(w.k, ex)

        def feeder():
            w.k.block(lambda: False, timeout=50)
            w.feed_msg(c, {"k": "DPR", "host": "peer1.example", "hbh": 0x180, "e2e": 0x180}, run=False)
        w.k.spawn(feeder, name="feeder")
        w.k.run()
        [t for t in w.k.threads if t.name == "feeder"][0].deadline = due
        ex.armed = True
        w.k.advance(due - w.k.now)
        ex.armed = False
        w.k.run()
        problems = []
        out = c.refresh()
        dpas = [f for f in out if f.code == 282 and not f.is_request]
        if len(dpas) != 1 or dpas[0].result_code() != 2001:
            problems.append(("dpa", f"the DPR was answered with {[f.brief() for f in dpas]}"))
        dwrs = [f for f in out if f.code == 280 and f.is_request]
        for f in dwrs:                                      # the peer answers the watchdog request it was sent
            w.feed_msg(c, {"k": "DWA", "host": "peer1.example", "hbh": f.h["hbh"], "e2e": f.h["e2e"]})
        n0 = len(c.refresh())
        m = CreditControlRequest()
        m.session_id, m.origin_host, m.origin_realm = "n;1", W.NODE_HOST.encode(), W.NODE_REALM.encode()
        m.destination_realm, m.service_context_id = W.NODE_REALM.encode(), "x"
        m.cc_request_type, m.cc_request_number = 1, 0
        call = w.app_call(lambda: w.apps[0].send_request(m, timeout=1), name="probe")
        w.advance(2)
        sent = [f for f in c.refresh()[n0:] if f.is_request and f.code == 272]
        if sent or not isinstance(call["box"]["exc"], NotRoutable):
            problems.append(("still-routable", f"after DPR/DPA ({len(dwrs)} DWR sent in the same turn) a request was "
                             f"{'written to the peer' if sent else 'accepted'}: outcome {call['box']['exc']!r}"))
        for sig, d in W.monitor_threads(w):
            problems.append((f"thread-died/{sig}", d))
        return ex.trace, problems, len(dwrs)
    finally:
        w.close()


def cea_then_fin(decisions):
    """A dialled persistent peer answers the CER with a 2001 CEA and goes away in the same instant (the read thread
    completes the exchange while the connection thread removes the connection).  One schedule: the loss is noticed
    and the peer is dialled again once its reconnect wait has elapsed."""
    from dv import sched
    w = W.NodeWorld({"peers": [{"name": "peer1.example", "ip": ["10.1.1.1"], "persistent": True, "reconnect_wait": 2}],
                     "apps": [{"app_id": 4, "auth": True, "peers": [0], "handler": "answer"}],
                     "node_timers": {"idle": 5000, "dwa": 50, "cer": 50, "cea": 50, "wakeup": 1}, "default_dial": "ok"})
    try:
        w.start()
        a = w.conns[0]
        a.host = "peer1.example"
        ex = sched.Explorer(decisions)
        sched.attach(w.k, ex)
        cers = [f for f in a.refresh() if f.code == W.CMD_CE and f.is_request]
        w.feed_msg(a, {"k": "CEA", "host": "peer1.example", "result": 2001, "auth": [4], "hbh": cers[-1].h["hbh"], "e2e": cers[-1].h["e2e"]}, run=False)
        a.peer_closed = True
        a.remote.close()
        t0 = w.k.now
        dials0 = len(w.net.connect_calls)
        ex.armed = True
        w.k.run()
        ex.armed = False
        w.advance(2 + 1 + 2)
        problems = []
        redials = [x for x in w.net.connect_calls[dials0:]]
        if not redials:
            problems.append(("not-redialled", f"the connection was lost at +0 (no DPR), reconnect_wait 2 s, wakeup 1 s: no dial within 5 s; "
                             f"Peer.connection is {w.node.peers['peer1.example'].connection!r}"))
        elif redials[0][0] - t0 < 1:
            problems.append(("redialled-early", f"dialled again at +{redials[0][0] - t0:g}s, reconnect_wait 2 s"))
        for sig, d in W.monitor_threads(w):
            problems.append((f"thread-died/{sig}", d))
        return ex.trace, problems
    finally:
        w.close()


def start_race(decisions, npeers=2, dial="ok"):
    """Node.start() starts the connection thread and then dials the persistent peers from the caller's thread.
    One schedule; every persistent peer must have been dialled and sent its CER, and no thread may have died."""
    from dv import sched
    w = W.NodeWorld({"peers": [{"name": f"peer{i + 1}.example", "ip": [f"10.1.1.{i + 1}"], "persistent": True, "reconnect_wait": 1000}
                               for i in range(npeers)],
                     "apps": [{"app_id": 4, "auth": True, "peers": list(range(npeers)), "handler": "answer"}],
                     "node_timers": {"idle": 1000, "dwa": 10, "cer": 30, "cea": 30, "wakeup": 1}, "default_dial": dial})
    try:
        ex = sched.Explorer(decisions)
        sched.attach(w.k, ex)
        if dial == "inprogress":
            # the TCP handshake of each dial completes as soon as the network gets to it - possibly while the dialling
            # thread is still inside the function that opened the socket
            def network():
                done = 0
                while done < npeers:
                    w.k.block(lambda: len(w.net.dialed) > done, timeout=50)
                    if len(w.net.dialed) <= done:
                        return
                    w.net.dialed[done].complete_connect(True)
                    done += 1
            w.k.spawn(network, name="network")
        ex.armed = True
        w.start(on_thread=True)
        ex.armed = False
        w.advance(1)
        problems = []
        if w.start_box["exc"] is not None:
            problems.append((f"start-raised/{type(w.start_box['exc']).__name__}", repr(w.start_box["exc"])))
        for sig, d in W.monitor_threads(w):
            problems.append((f"thread-died/{sig}", d))
        if isinstance(dial, (list, tuple)):
            # every dial fails at once (ENETUNREACH): nothing stays behind, and the peers are dialled again later
            w.advance(2)
            listeners = list(w.node.tcp_sockets) + list(w.node.sctp_sockets)
            left = [s_ for s_ in w.net.open_sockets() if s_ not in listeners]
            if len(left) > len(listeners):
                problems.append(("sockets-left-after-failed-dial", f"{left[:4]}"))
        dialled = {a[0] for _, a, _ in w.net.connect_calls}
        if dialled != {f"10.1.1.{i + 1}" for i in range(npeers)}:
            problems.append(("not-dialled", f"persistent peers dialled at start: {sorted(dialled)}"))
        for c in w.conns:
            cers = [f for f in c.refresh() if f.code == W.CMD_CE and f.is_request]
            if not cers:
                problems.append(("no-cer", f"connection {c.idx} was dialled but no CER was sent within 1 s"))
            elif len(cers) > 1:
                problems.append(("cer-sent-twice", f"connection {c.idx}: {len(cers)} CERs written ({[f.brief() for f in c.out]})"))
            if cers and cers[0].avp(257) is None:
                problems.append(("cer-without-host-ip-address", f"connection {c.idx}: the CER carries no Host-IP-Address (required, RFC 6733 5.3.1)"))
        return ex.trace, problems
    finally:
        w.close()


def schedule_part(rec, shard, nshards, thorough):
    from dv import sched
    from dv.common import fp
    info = install_points("start")
    if shard == 0:
        rec.extra["preemption_functions_start"] = info
    for npeers, dial in ((2, "ok"), (3, "ok"), (1, "inprogress"), (2, ["sync-error", 101])):
        holder_s = {}

        def run_start(dec, npeers=npeers, dial=dial):
            tr, problems = start_race(dec, npeers, dial)
            holder_s["last"] = problems
            return tr
        ns = 0
        # (three deviations are affordable for the one-peer variant only: ~10^5 schedules; the others have ~5*10^4 at two)
        bound_ = 3 if (thorough and npeers == 1) else 4 - max(npeers, 2)
        for dec, trace in sched.enumerate_schedules(run_start, bound_, shard, nshards):
            dial_name = dial if isinstance(dial, str) else "sync-error"
            case = {"start_race": npeers, "dial": dial, "schedule": {str(i): c for i, c in sorted(dec.items())}}
            for kind, detail in holder_s["last"]:
                rec.violation(f"C12/start-race/{kind}", case, detail)
            ns += 1
            rec.case(fp("start", npeers, dial_name, tuple(sorted(dec.items()))) if dec else None,
                     ["start-race-schedule", f"start-race:dial-{dial_name}", f"deviations:{len(dec)}"], sample=lambda: dict(case, choice_points=len(trace)))
        rec.extra["start_race_schedules"] = rec.extra.get("start_race_schedules", 0) + ns
    install_points("cea-fin")
    holder_c = {}

    def run_cf(dec):
        tr, problems = cea_then_fin(dec)
        holder_c["last"] = problems
        return tr
    nc_ = 0
    for dec, trace in sched.enumerate_schedules(run_cf, 3 if thorough else 2, shard, nshards):
        case = {"cea_then_fin": True, "schedule": {str(i): c for i, c in sorted(dec.items())}}
        for kind, detail in holder_c["last"]:
            rec.violation(f"C12/cea-then-fin/{kind}", case, detail)
        nc_ += 1
        rec.case(fp("ceafin", tuple(sorted(dec.items()))) if dec else None,
                 ["cea-then-fin-schedule", f"deviations:{len(dec)}"], sample=lambda: dict(case, choice_points=len(trace)))
    rec.extra["cea_then_fin_schedules"] = rec.extra.get("cea_then_fin_schedules", 0) + nc_
    info = install_points("dpr")
    if shard == 0:
        rec.extra["preemption_functions_dpr"] = info
    holder_d = {}

    def run_dpr(dec):
        out = dpr_vs_watchdog(dec)
        holder_d["last"] = out[1]
        holder_d["dwrs"] = out[2] if len(out) > 2 else 0
        return out[0]
    nd = 0
    for dec, trace in sched.enumerate_schedules(run_dpr, 3 if thorough else 2, shard, nshards):
        case = {"dpr_vs_watchdog": True, "schedule": {str(i): c for i, c in sorted(dec.items())}}
        for kind, detail in holder_d["last"]:
            rec.violation(f"C12/dpr-vs-watchdog/{kind}", case, detail)
        nd += 1
        rec.case(fp("dprwd", tuple(sorted(dec.items()))) if dec else None,
                 ["dpr-vs-watchdog-schedule", f"dpr-vs-watchdog:dwr-sent:{holder_d['dwrs']}", f"deviations:{len(dec)}"],
                 sample=lambda: dict(case, choice_points=len(trace)))
    rec.extra["dpr_vs_watchdog_schedules"] = rec.extra.get("dpr_vs_watchdog_schedules", 0) + nd
    info = install_points()
    if shard == 0:
        rec.extra["preemption_functions"] = info
    holder = {}
    for force in (False, True):
        def run_one(dec, force=force):
            tr, ws = stop_race(dec, force)
            holder["last"] = ws
            return tr
        n = 0
        for dec, trace in sched.enumerate_schedules(run_one, 3 if thorough else 2, shard, nshards):
            case = {"stop_race": True, "force": force, "schedule": {str(i): c for i, c in sorted(dec.items())}}
            if holder["last"]:
                rec.violation("C12/dial/while-stopping", case, f"connect() {holder['last'][0][1]} issued while the node was stopping "
                              f"(stop() raced with the reconnect pass)")
            n += 1
            rec.case(fp("race", force, tuple(sorted(dec.items()))) if dec else None,
                     ["stop-race-schedule", f"deviations:{len(dec)}"], sample=lambda: dict(case, choice_points=len(trace)))
        rec.extra["stop_race_schedules"] = rec.extra.get("stop_race_schedules", 0) + n


KNOWN_REPRO = {"flags": {"persistent": True, "always": True, "wait": 1, "addr": True, "wakeup": 5},
               "dial_plan": ["ok", "ok"], "allow_known": True,
               "events": [["ADV", 9], ["INBOUND"], ["DPR_CLOSE"], ["ADV", 8]]}


def dpr_then_fin(rec, direction):
    """Known finding (dedicated reproduction; the generated histories close a connection only after its DPR has been
    handled): the peer's DPR and its FIN reach the node in the same instant.  The I/O thread reads the DPR, hands it
    to the read thread, reads the end of the stream and closes the connection before the read thread has looked at
    the DPR, which is then dropped ("connection has been closed, ignoring received message")."""
    w = W.NodeWorld({"peers": [{"name": "peer1.example", "ip": ["10.1.1.1"], "persistent": True, "reconnect_wait": 2}],
                     "apps": [{"app_id": 4, "auth": True, "peers": [0], "handler": "answer"}],
                     "node_timers": {"idle": 1000, "dwa": 10, "cer": 30, "cea": 30, "wakeup": 1},
                     "default_dial": "ok" if direction == "out" else "inprogress"})
    case = {"dpr_then_fin": direction}
    try:
        pm = w.mods["peer"]
        w.start()
        if direction == "out":
            c = w.conns[0]
            w.answer_cer(c, 2001, auth=(4,), host="peer1.example")
        else:
            w.connect_result(w.conns[0], False)                   # the node's own dial fails; the peer connects instead
            c = w.handshake_in("peer1.example", auth=[4], ip="10.1.1.1", hbh=0x100)
        dials0 = len(w.net.connect_calls)
        w.feed_msg(c, {"k": "DPR", "host": "peer1.example", "hbh": 0x180, "e2e": 0x180}, run=False)
        w.peer_close(c)
        peer = w.node.peers["peer1.example"]
        reason = peer.disconnect_reason
        w.advance(6)
        redials = len(w.net.connect_calls) - dials0
        if reason != pm.DISCONNECT_REASON_DPR or redials:
            rec.violation("C12/dpr-then-fin/dpr-dropped", case,
                          f"DPR and FIN in one instant ({direction}): disconnect_reason {reason} (DPR is {pm.DISCONNECT_REASON_DPR}), "
                          f"{redials} redial(s) of the persistent, not always-reconnect peer within 6 s")
        rec.case(None, ["known-finding-reproduction", "dpr-then-fin"], sample=lambda: dict(case, reason=reason, redials=redials))
    finally:
        w.close()


def shard_main(shard, nshards, tier, scale):
    rec = Recorder(PID)
    schedule_part(rec, shard, nshards, tier == "thorough")
    if shard == 0:
        r = evaluate(KNOWN_REPRO)
        r.classes.append("known-finding-reproduction")
        record(rec, KNOWN_REPRO, r)
        for direction in ("out", "in"):
            dpr_then_fin(rec, direction)
    thorough = tier == "thorough"
    shrunk = set()
    n = int((8000 if thorough else 600) * scale)

    @st.composite
    def cases(draw):
        small = draw(st.integers(0, 3)) > 0
        wait = draw(st.integers(1, 6 if small else 60))
        flags = {"persistent": draw(st.sampled_from([True, True, True, False])),
                 "always": draw(st.booleans()), "wait": wait,
                 "addr": draw(st.sampled_from([True, True, True, False])), "wakeup": draw(st.integers(1, 6)),
                 "idle": draw(st.sampled_from([1000, 1000, 2]))}
        adv = st.tuples(st.just("ADV"), st.one_of(st.integers(1, 3), st.integers(1, wait + 8)))
        ev = st.one_of(adv, adv, st.tuples(st.just("CONNECT_OK")), st.tuples(st.just("CONNECT_OK")),
                       st.tuples(st.just("CONNECT_FAIL")), st.tuples(st.just("CEA"), st.sampled_from([2001, 2001, 3010])),
                       st.tuples(st.just("INBOUND")), st.tuples(st.just("INBOUND2")), st.tuples(st.just("CLOSE")), st.tuples(st.just("RESET")),
                       st.tuples(st.just("DPR")), st.tuples(st.just("DPR")), st.tuples(st.just("DWA")), st.tuples(st.just("DPR_CLOSE")),
                       st.tuples(st.just("WRITE_FAIL")), st.tuples(st.just("GARBAGE_BLOCKED")))
        plan = draw(st.lists(st.sampled_from(["ok", "inprogress", "inprogress", ["sync-error", 111], ["sync-error", 101]]),
                             max_size=6))
        return {"flags": flags, "dial_plan": plan, "seed": draw(st.integers(0, 3)), "spell": draw(st.sampled_from([None, None, "PEER1.Example"])), "busy_peer2": draw(st.booleans()),
                "events": [list(e) for e in draw(st.lists(ev, min_size=1, max_size=30))]}

    def body(case):
        res = evaluate(case)
        record(rec, case, res, evaluate, "events", shrunk)
    hyp.run_given(cases(), body, n // 2, derive_seed(PID, "rand", shard), rec=rec)

    @st.composite
    def cycle_cases(draw):
        """several reconnect cycles: establish, lose in some way, wait around the reconnect deadline"""
        wait = draw(st.integers(1, 8))
        wake = draw(st.integers(1, 5))
        flags = {"persistent": draw(st.sampled_from([True, True, True, True, False])), "always": draw(st.booleans()),
                 "wait": wait, "addr": True, "wakeup": wake, "idle": draw(st.sampled_from([1000, 2, 3]))}
        ev = []
        plan = []
        for _ in range(draw(st.integers(1, 4))):
            how = draw(st.sampled_from(["ok", "inprogress-ok", "inprogress-fail", "sync"]))
            if how == "ok":
                plan.append("ok")
            elif how == "sync":
                plan.append(["sync-error", 111])
            else:
                plan.append("inprogress")
                ev.append(["CONNECT_OK"] if how == "inprogress-ok" else ["CONNECT_FAIL"])
            if how in ("ok", "inprogress-ok"):
                cea = draw(st.sampled_from(["2001", "2001", "2001", "3010", "none"]))
                if cea == "2001":
                    ev.append(["CEA", 2001])
                    ev.append(draw(st.sampled_from([["CLOSE"], ["RESET"], ["DPR_CLOSE"], ["DPR_CLOSE"], ["DPR"], ["ADV", 1], ["WRITE_FAIL"], ["GARBAGE_BLOCKED"]])))
                    if ev[-1] == ["DPR"]:
                        if draw(st.booleans()):
                            ev.append(["DWA"])
                        ev.append(["ADV", draw(st.integers(1, 3))])
                        ev.append(["CLOSE"])
                elif cea == "3010":
                    ev.append(["CEA", 3010])
                else:
                    ev.append(["ADV", 3 + wake + 1])
            if draw(st.integers(0, 3)) == 0:
                ev.append(["INBOUND"])
                ev.append(draw(st.sampled_from([["CLOSE"], ["DPR_CLOSE"], ["RESET"]])))
            ev.append(["ADV", draw(st.sampled_from([wait - 1 if wait > 1 else 1, wait, wait + wake + 2, wait + wake + 2]))])
        return {"flags": flags, "dial_plan": plan, "seed": draw(st.integers(0, 3)), "spell": draw(st.sampled_from([None, None, "PEER1.Example"])), "events": ev}

    def cbody(case):
        res = evaluate(case)
        res.classes.append("cycles")
        record(rec, case, res, evaluate, "events", shrunk)
    hyp.run_given(cycle_cases(), cbody, n - n // 2, derive_seed(PID, "cycles", shard), rec=rec)

    # systematic: each loss kind x flags, then wait long enough for a redial cycle
    losses = {"eof": [["CONNECT_OK"], ["CEA", 2001], ["CLOSE"]],
              "reset": [["CONNECT_OK"], ["CEA", 2001], ["RESET"]],
              "dpr": [["CONNECT_OK"], ["CEA", 2001], ["DPR_CLOSE"]],
              "cea-rejected": [["CONNECT_OK"], ["CEA", 3010]],
              "cea-timeout": [["CONNECT_OK"], ["ADV", 9]],
              "connect-fail": [["CONNECT_FAIL"]],
              "sync-refused": []}
    jobs = []
    extra_jobs = []
    for lk in losses:
        for persistent in (True, False):
            for always in (True, False):
                for wait in (1, 2, 5):
                    for wake in (1, 3):
                        jobs.append((lk, persistent, always, wait, wake))
    for wake in (1, 2):
        for always in (True, False):
            ev = [["CONNECT_OK"], ["CEA", 2001], ["ADV", 2 + wake + 1], ["DPR"], ["DWA"], ["ADV", 1], ["DWA"], ["ADV", 3], ["CLOSE"], ["ADV", 6]]
            extra_jobs.append({"flags": {"persistent": True, "always": always, "wait": 2, "addr": True, "wakeup": wake, "idle": 2},
                               "dial_plan": [], "events": ev})
    for wake in (1, 2):
        for how in ("CLOSE", "RESET", "DPR_CLOSE"):
            for wait in (1, 3):
                ev = [["CONNECT_OK"], ["CEA", 2001], ["ADV", 1], ["INBOUND2"], ["ADV", 1], [how], ["ADV", wait + wake + 3]]
                extra_jobs.append({"flags": {"persistent": True, "always": True, "wait": wait, "addr": True, "wakeup": wake},
                                   "dial_plan": [], "events": ev})
    if shard == 0:
        rec.extra["systematic_jobs"] = len(jobs) + len(extra_jobs)
    for (lk, persistent, always, wait, wake) in jobs[shard::nshards]:
        ev = list(losses[lk]) + [["ADV", wait + wake + 3]] + list(losses[lk]) + [["ADV", wait + wake + 3]]
        case = {"flags": {"persistent": persistent, "always": always, "wait": wait, "addr": True, "wakeup": wake},
                "dial_plan": [["sync-error", 111]] * 2 if lk == "sync-refused" else [], "events": ev,
                "busy_peer2": (wait + wake) % 2 == 0}
        res = evaluate(case)
        res.classes += ["systematic", f"loss:{lk}"]
        record(rec, case, res, evaluate, "events", shrunk)
    for case in extra_jobs[shard::nshards]:
        res = evaluate(case)
        res.classes += ["systematic", "dwr-outstanding-at-dpr" if ["DWA"] in case["events"] else "second-connection-grid"]
        record(rec, case, res, evaluate, "events", shrunk)
    return rec.dump()


def run(tier, scale=1.0):
    t0 = time.time()
    rec = Recorder(PID)
    for d in hyp.pool_run(shard_main, (tier, scale)):
        rec.merge(d)
    required = {"loss:write_fail": 1, "loss:garbage_blocked": 1, "dpr-repeated": 1, "start-race:dial-sync-error": 1, "cea-then-fin-schedule": 1, "start-race:dial-inprogress": 1, "dpr-vs-watchdog-schedule": 1, "dpr-vs-watchdog:dwr-sent:1": 1, "start-race-schedule": 1, "other-peer-busy": 1, "second-connection-by-the-peer": 1, "identity:respelled": 1, "stop-race-schedule": 1, "persistent:True": 1, "persistent:False": 1, "always:True": 1, "addr:False": 1, "losses:2": 1,
                "dpr-on-ready": 1, "dwa-event": 1, "dwr-outstanding-at-dpr": 1, "reason-dpr": 1, "dials:3": 1, "loss:sync-refused": 1, "loss:cea-timeout": 1}
    return finish(rec, tier=tier, level="exploration", rule=RULE, assumptions=ASSUME, t0=t0,
                  required_classes=required)


def replay(doc):
    if doc["case"].get("cea_then_fin"):
        install_points("cea-fin")
        _, problems = cea_then_fin({int(i): c for i, c in doc["case"]["schedule"].items()})
        sigs = [f"C12/cea-then-fin/{k}" for k, _ in problems]
        if doc["signature"] in sigs:
            print(f"  replayed: {problems[0][1][:300]}")
            print(f"VIOLATION property={PID} replay=(replay)")
            return 1
        print(f"[{PID}] replay: signature {doc['signature']} does not reproduce (got {sigs})")
        return 0
    if doc["case"].get("dpr_vs_watchdog"):
        install_points("dpr")
        problems = dpr_vs_watchdog({int(i): c for i, c in doc["case"]["schedule"].items()})[1]
        sigs = [f"C12/dpr-vs-watchdog/{k}" for k, _ in problems]
        if doc["signature"] in sigs:
            print(f"  replayed: {problems[0][1][:300]}")
            print(f"VIOLATION property={PID} replay=(replay)")
            return 1
        print(f"[{PID}] replay: signature {doc['signature']} does not reproduce (got {sigs})")
        return 0
    if doc["case"].get("start_race"):
        install_points("start")
        _, problems = start_race({int(i): c for i, c in doc["case"]["schedule"].items()}, doc["case"]["start_race"], doc["case"].get("dial", "ok"))
        sigs = [f"C12/start-race/{k}" for k, _ in problems]
        if doc["signature"] in sigs:
            print(f"  replayed: {problems[0][1][:300]}")
            print(f"VIOLATION property={PID} replay=(replay)")
            return 1
        print(f"[{PID}] replay: signature {doc['signature']} does not reproduce (got {sigs})")
        return 0
    if doc["case"].get("stop_race"):
        install_points()
        dec = {int(i): c for i, c in doc["case"]["schedule"].items()}
        _, ws = stop_race(dec, doc["case"]["force"])
        if ws:
            print(f"  replayed: connect() {ws[0][1]} while stopping")
            print(f"VIOLATION property={PID} replay=(replay)")
            return 1
        print(f"[{PID}] replay: does not reproduce")
        return 0
    return generic_replay(PID, evaluate, doc)
