"""C16 -- hop-by-hop, end-to-end and session ids are unique, also under concurrency.

Schedules: 2..3 simulated threads x 1..3 draws from one generator, every
interleaving at line/call granularity with <= 3 deviations from the default
schedule (exhaustive, E5), random ones beyond.  Inputs: start values incl.
MAX-2..MAX, start timestamps, 10^5 sequential draws, session-id format against
an independent formatter.
"""
from __future__ import annotations

import random as _random
import time

from hypothesis import strategies as st

from dv import hyp, sched, simkernel as sk
from dv.common import derive_seed, fp
from dv.evidence import Recorder, finish

PID = "C16"
RULE = ("schedules: (generator kind, start value, threads 2..3, draws 1..3 each) x every interleaving "
        "with <= 3 deviations (preemption at a line/call of next_sequence/next_id, or a non-default "
        "pick at a blocking point), enumerated exhaustively; random schedules with up to 6 deviations; "
        "inputs: start values incl. MAX-2..MAX and the carry from the low into the high 32-bit field of the session counter, start timestamps (boundary + random), sequential runs "
        "of 10^5 draws, session ids with 0..3 optional fields. Non-trivial: a schedule with >= 1 "
        "deviation, or a sequential run crossing the wrap; distinct by (configuration, schedule).")
ASSUME = ["start values are injected through the code's own `random` calls (the shimmed module), start times through the virtual clock",
          "preemption inside C code or between bytecodes that are neither a new line nor a call is not modelled",
          "uniqueness is demanded until the counter space wraps (draw counts are far below 2^32)"]

MAX32 = 0xffffffff
MAX64 = 0xffffffffffffffff


class ForcedRandom(_random.Random):
    """random.Random whose next randint/getrandbits results are scripted."""
    def __init__(self, values):
        super().__init__(0)
        self.values = list(values)

    def randint(self, a, b):
        if self.values:
            v = self.values.pop(0)
            return min(max(v, a), b)
        return super().randint(a, b)

    def getrandbits(self, k):
        if self.values:
            return self.values.pop(0) & ((1 << k) - 1)
        return super().getrandbits(k)


def make_world(kind, start, nthreads, ndraws, decisions=None, rng=None, p=0.0, maxr=0):
    """Returns (values per thread, explorer, kernel errors)."""
    mods = sk.load_node()
    H = mods["_helpers"]
    k = sk.Kernel(seed=1).install()
    ex = sched.Explorer(decisions, rng=rng, p_switch=p, max_random_switches=maxr)
    sched.attach(k, ex)
    try:
        if kind == "seq":
            k.rng = ForcedRandom([start])
            gen = H.SequenceGenerator()
            draw = gen.next_sequence
        elif kind == "e2e":
            k.rng = ForcedRandom([start & 0xfffff])
            gen = H.SequenceGenerator(int(k.now))
            draw = gen.next_sequence
        else:
            k.rng = ForcedRandom([start])
            gen = H.SessionGenerator("node.example")
            draw = gen.next_id
        results = [[] for _ in range(nthreads)]

        def worker(i):
            for _ in range(ndraws[i]):
                results[i].append(draw())
        boxes = [k.spawn(worker, name=f"caller{i}", args=(i,)) for i in range(nthreads)]
        ex.armed = True
        k.run()
        ex.armed = False
        errs = list(k.errors) + [b["exc"] for b in boxes if b["exc"] is not None]
        done = all(b["done"] for b in boxes)
        return results, ex, errs, done
    finally:
        k.shutdown()


def callers_of_one_node(rec, shard):
    """Identifiers handed out by one node to different callers (two applications sending requests, the node's own
    watchdog requests) are distinct.  Random start values are scripted to be EQUAL for every generator that is
    created: independent counters would collide at once (equal starts are one of the outcomes of the real
    randomness; with a single per-node generator they are irrelevant)."""
    from dv import world as W
    from diameter.message.commands import CreditControlRequest
    for low in (1, 0x7ffff, 0xfffff):
        case = {"callers": ["application 0", "application 1", "node (DWR)"], "scripted_random_low_bits": low}
        w = W.NodeWorld({"peers": [{"name": "peer1.example", "ip": ["10.1.1.1"], "timers": {"idle": 2}}],
                         "apps": [{"app_id": 4, "auth": True, "peers": [0], "handler": "answer"},
                                  {"app_id": 3, "acct": True, "auth": False, "peers": [0], "handler": "answer"}],
                         "node_timers": {"idle": 2, "dwa": 50, "cer": 50, "cea": 50, "wakeup": 1},
                         "rng": ForcedRandom([low] * 64)})
        try:
            w.start()
            c = w.handshake_in("peer1.example", auth=[4], acct=[3])
            ids = []
            for rnd in range(3):
                for ai, app in enumerate(w.apps):
                    m = CreditControlRequest()
                    m.session_id = f"n;{rnd};{ai}"
                    m.origin_host, m.origin_realm = W.NODE_HOST.encode(), W.NODE_REALM.encode()
                    m.destination_realm, m.service_context_id = W.NODE_REALM.encode(), "x"
                    m.cc_request_type, m.cc_request_number = 1, rnd
                    m.header.application_id = app.application_id
                    w.app_call(lambda m=m, app=app: app.send_request(m, timeout=1), name=f"sender{ai}")
                w.advance(3)          # idle: the node sends a DWR of its own
                for f in c.refresh():
                    if f.is_request and f.code == 280:
                        w.feed_msg(c, {"k": "DWA", "host": "peer1.example", "hbh": f.h["hbh"], "e2e": f.h["e2e"]})
            out = [(f.code, f.h["e2e"]) for f in c.refresh() if f.is_request]
            e2es = [e for _, e in out]
            if len(set(e2es)) != len(e2es) or 0 in e2es:
                rec.violation("C16/e2e/duplicate-across-callers", case,
                              f"end-to-end identifiers of the requests one node sent: {[(cd, hex(e)) for cd, e in out]}")
            rec.case(sha("callers", low, shard), ["e2e:callers-of-one-node"], sample=lambda: dict(case, requests=len(out)))
        finally:
            w.close()


def watchdogs_of_one_pass(rec, shard):
    """Two or three connections become idle in the same timer pass: the node's watchdog requests, as they appear on
    the wire, bear distinct end-to-end identifiers and, per connection, the successor of that connection's previous
    hop-by-hop identifier is not required - distinctness and non-zero are."""
    from dv import world as W
    for npeers in (2, 3):
        case = {"watchdogs_of_one_pass": npeers}
        w = W.NodeWorld({"peers": [{"name": f"peer{i + 1}.example", "ip": [f"10.1.1.{i + 1}"]} for i in range(npeers)],
                         "apps": [{"app_id": 4, "auth": True, "peers": list(range(npeers)), "handler": "answer"}],
                         "node_timers": {"idle": 2, "dwa": 50, "cer": 50, "cea": 50, "wakeup": 1}})
        try:
            w.start()
            conns = [w.handshake_in(f"peer{i + 1}.example", auth=[4], ip=f"10.1.1.{i + 1}", hbh=0x100 + i) for i in range(npeers)]
            seen = []
            for rnd in range(3):
                w.advance(4)
                for i, c in enumerate(conns):
                    for f in c.refresh():
                        if f.is_request and f.code == 280 and (i, f.h["hbh"], f.h["e2e"], f.t) not in seen:
                            seen.append((i, f.h["hbh"], f.h["e2e"], f.t))
                            w.feed_msg(c, {"k": "DWA", "host": f"peer{i + 1}.example", "hbh": f.h["hbh"], "e2e": f.h["e2e"]})
            e2es = [e for _, _, e, _ in seen]
            if len(set(e2es)) != len(e2es) or 0 in e2es:
                rec.violation("C16/e2e/duplicate-among-watchdog-requests", case,
                              f"DWRs on the wire (connection, hop-by-hop, end-to-end, time): {[(i, hex(h), hex(e), t) for i, h, e, t in seen]}")
            for i in range(npeers):
                hbhs = [h for j, h, _, _ in seen if j == i]
                if len(set(hbhs)) != len(hbhs) or 0 in hbhs:
                    rec.violation("C16/seq/duplicate-among-watchdog-requests", case, f"connection {i}: hop-by-hop ids {[hex(h) for h in hbhs]}")
            same_pass = len({t for _, _, _, t in seen}) < len(seen)
            rec.case(sha("wd", npeers, shard), ["e2e:watchdogs-of-one-pass" if same_pass else "e2e:watchdogs-staggered"],
                     sample=lambda: dict(case, dwrs=len(seen)))
        finally:
            w.close()


def ids_of(kind, results):
    flat = [v for r in results for v in r]
    if kind == "sess":
        out = []
        for s in flat:
            parts = s.split(";")
            out.append((int(parts[2], 16) << 32) | int(parts[3], 16))
        return out
    return flat


def check_run(kind, start, nthreads, ndraws, results, errs, done, rec, case):
    if errs:
        rec.violation(f"C16/{kind}/exception", case, repr(errs[0])[:300])
        return
    if not done:
        rec.violation(f"C16/{kind}/callers-did-not-finish", case, "a caller is still blocked at quiescence")
        return
    vals = ids_of(kind, results)
    total = sum(ndraws)
    if len(vals) != total:
        rec.violation(f"C16/{kind}/missing-values", case, f"{len(vals)} != {total}")
    if len(set(vals)) != len(vals):
        rec.violation(f"C16/{kind}/duplicate", case, f"values handed out: {results}")
    if any(v == 0 for v in vals):
        rec.violation(f"C16/{kind}/zero", case, f"{results}")
    mx = MAX64 if kind == "sess" else MAX32
    # the multiset must be exactly the next `total` values after the start (wrapping to 1)
    exp, cur = [], (start if kind != "e2e" else ((int(sk.START_TIME) << 20) | max(1, start & 0xfffff)) & MAX32)
    for _ in range(total):
        cur = 1 if cur == mx else cur + 1
        exp.append(cur)
    if sorted(vals) != sorted(exp) and len(set(vals)) == len(vals):
        rec.violation(f"C16/{kind}/not-successors", case, f"got {sorted(vals)[:6]} expected {sorted(exp)[:6]}")


def sha(*a):
    return fp(*a)


# --------------------------------------------------------------------------
CONFIGS = []
for kind in ("seq", "sess"):
    mx = MAX64 if kind == "sess" else MAX32
    for start in (5, mx - 2, mx - 1, mx):
        for nd in ((1, 1), (2, 1), (2, 2), (1, 1, 1)):
            CONFIGS.append((kind, start, len(nd), nd))
CONFIGS.append(("seq", 100, 2, (3, 3)))
CONFIGS.append(("seq", 100, 3, (2, 2, 1)))
CONFIGS.append(("sess", 77, 3, (2, 1, 1)))
CONFIGS.append(("e2e", 0xffffe, 2, (2, 2)))
CONFIGS.append(("sess", (0x1967cbd0 << 32) | (MAX32 - 1), 2, (2, 1)))      # carry into the high field under concurrency


def install_points():
    mods = sk.load_node()
    H = mods["_helpers"]
    return sched.install({H.SequenceGenerator.next_sequence: None, H.SessionGenerator.next_id: None})


def shard_main(shard, nshards, tier, scale):
    rec = Recorder(PID)
    thorough = tier == "thorough"
    info = install_points()
    rec.extra["preemption_functions"] = info
    bound = 3
    total_sched = 0
    # exhaustive: every configuration, schedules dealt to shards
    for ci, (kind, start, nt, nd) in enumerate(CONFIGS):
        if not thorough and nt == 3 and sum(nd) > 3:
            b = 2
        else:
            b = bound
        holder = {}

        def run_one(dec):
            results, ex, errs, done = make_world(kind, start, nt, nd, dec)
            holder["last"] = (results, errs, done)
            return ex.trace
        for dec, trace in sched.enumerate_schedules(run_one, b, shard, nshards):
            results, errs, done = holder["last"]
            case = {"kind": kind, "start": start, "threads": nt, "draws": nd,
                    "schedule": {str(i): c for i, c in sorted(dec.items())}}
            check_run(kind, start, nt, nd, results, errs, done, rec, case)
            total_sched += 1
            rec.case(sha(ci, tuple(sorted(dec.items()))) if dec else None,
                     [f"gen:{kind}", f"deviations:{len(dec)}", f"threads:{nt}"] +
                     (["wrap"] if start >= (MAX64 if kind == 'sess' else MAX32) - 2 else []),
                     sample=lambda: dict(case, points=len(trace), values=results))
    rec.extra["exhaustive_schedules"] = total_sched

    if shard == 2 % nshards:
        callers_of_one_node(rec, shard)
    if shard == 3 % nshards:
        watchdogs_of_one_pass(rec, shard)

    # random schedules beyond the bound
    n_rand = int((4000 if thorough else 300) * scale)

    def rbody(t):
        ci, seed = t
        kind, start, nt, nd = CONFIGS[ci]
        rng = _random.Random(seed)
        results, ex, errs, done = make_world(kind, start, nt, nd, None, rng=rng, p=0.25, maxr=6)
        case = {"kind": kind, "start": start, "threads": nt, "draws": nd,
                "schedule": {str(i): c for i, c in sorted(ex.taken.items())}}
        check_run(kind, start, nt, nd, results, errs, done, rec, case)
        rec.case(sha("r", ci, tuple(sorted(ex.taken.items()))) if ex.taken else None,
                 [f"gen:{kind}", "random-schedule", f"deviations:{min(len(ex.taken), 6)}"], sample=lambda: case)
    hyp.run_given(st.tuples(st.integers(0, len(CONFIGS) - 1), st.integers(0, 1 << 30)), rbody, n_rand,
                  derive_seed(PID, "rand", shard), rec=rec)

    # sequential properties
    if shard % 4 == 0:
        sequential(rec, shard, thorough, scale)
    return rec.dump()


def sequential(rec, shard, thorough, scale):
    mods = sk.load_node()
    H = mods["_helpers"]
    k = sk.Kernel(seed=2).install()
    try:
        n = int((100000 if thorough or shard == 0 else 20000) * min(scale, 1.0)) or 1000
        for kind, starts in (("seq", [1, 12345, MAX32 - n // 2, MAX32 - 1, MAX32]),
                             # session counters: also the carry from the low into the high 32-bit field
                             ("sess", [1, MAX64 - n // 2, MAX64 - 1, MAX64, MAX32 - 1, MAX32, (0x1967cbd0 << 32) | (MAX32 - 2),
                                       (0xfffffffe << 32) | (MAX32 - n // 2), (0x7fffffff << 32) | MAX32])):
            mx = MAX64 if kind == "sess" else MAX32
            for start in starts:
                k.rng = ForcedRandom([start])
                gen = H.SequenceGenerator() if kind == "seq" else H.SessionGenerator("a.b")
                seen = set()
                cur = start
                case = {"kind": kind, "start": start, "sequential_draws": n}
                ok = True
                for i in range(n):
                    v = gen.next_sequence() if kind == "seq" else gen.next_id()
                    if kind == "sess":
                        p = v.split(";")
                        v = (int(p[2], 16) << 32) | int(p[3], 16)
                    cur = 1 if cur == mx else cur + 1
                    if v != cur or v == 0 or v in seen:
                        rec.violation(f"C16/{kind}/sequential", case, f"draw {i}: got {v:#x}, expected {cur:#x}")
                        ok = False
                        break
                    seen.add(v)
                carries = kind == "sess" and (start & MAX32) + n > MAX32
                rec.case(sha("seq", kind, start) if start + n > mx or carries else None,
                         [f"sequential:{kind}", "sequential:wraps" if start + n > mx else "sequential:nowrap"] +
                         (["sequential:low-to-high-carry"] if carries else []),
                         sample=lambda: case, n=1)
        # end-to-end initialisation and session-id format
        Node = mods["node"].Node
        times = [sk.START_TIME, 0xfff, 0x1000, 0x7fffffff, 0xffffffff, 1, 4095, 4096, 1_800_000_000,
                 2_085_978_496, 0xfffff001]
        r = _random.Random(shard + 17)
        times += [r.randrange(1, 1 << 32) for _ in range(200 if thorough else 40)]
        for t0 in times:
            k.set_time(float(t0) + r.random() * 0.9)
            for low in (1, 0xfffff, r.randrange(1, 0xfffff)):
                k.rng = ForcedRandom([low])
                g = H.SequenceGenerator(int(k.now))
                case = {"start_time": int(k.now), "random_low_bits": low}
                if g.sequence >> 20 != int(k.now) & 0xfff or not (0 < g.sequence <= MAX32):
                    rec.violation("C16/e2e/initial-high-bits", case,
                                  f"initial {g.sequence:#x}: high 12 bits {g.sequence >> 20:#x} != low 12 bits of start time {int(k.now) & 0xfff:#x}")
                if g.sequence & 0xfffff != low:
                    rec.violation("C16/e2e/initial-low-bits", case, f"{g.sequence:#x}")
                rec.case(sha("e2e", int(k.now), low), ["e2e-init"], sample=lambda: case)
            # a generator seeded with the start time draws across the carry out of its low 20 bits (the time bits are an
            # initial value, not a field): successors, distinct, never zero, 2^32-1 -> 1
            for low in (0xfffff, 0xffffe, 0xffff0):
                k.rng = ForcedRandom([low])
                g = H.SequenceGenerator(int(k.now))
                cur = g.sequence
                case = {"start_time": int(k.now), "random_low_bits": low, "draws": 40}
                seen = {cur}
                for i in range(40):
                    v = g.next_sequence()
                    cur = 1 if cur == MAX32 else cur + 1
                    if v != cur or v == 0 or v in seen or g.sequence != v:
                        rec.violation("C16/e2e/time-seeded/not-successors", case,
                                      f"draw {i}: got {v:#x} (sequence property {g.sequence:#x}), expected {cur:#x}")
                        break
                    seen.add(v)
                rec.case(sha("e2e-carry", int(k.now), low), ["e2e-carry-into-time-bits"], sample=lambda: case)
            node = Node("verif.node.example", "example")
            case = {"start_time": int(k.now), "via": "Node()"}
            if node.end_to_end_seq.sequence >> 20 != int(k.now) & 0xfff:
                rec.violation("C16/e2e/node-initial-high-bits", case, f"{node.end_to_end_seq.sequence:#x}")
            sk._os_close(node.interrupt_read)
            sk._os_close(node.interrupt_write)
            # session id format
            opt_sets = [(), ("user@host",), ("a", "b", "c")]
            sg = node.session_generator
            base = sg._sequence
            for j, opts in enumerate(opt_sets):
                sid = sg.next_id(*opts)
                cnt = 1 if base + j == MAX64 else (base + j + 1 if base + j + 1 <= MAX64 else (base + j + 1) - MAX64)
                exp = ";".join(["verif.node.example", "%08x" % (int(k.now) & 0xffffffff),
                                "%08x" % (cnt >> 32), "%08x" % (cnt & 0xffffffff)] + list(opts))
                case = {"start_time": int(k.now), "optional": list(opts), "session_id": sid}
                if sid != exp:
                    rec.violation("C16/sess/format", case, f"{sid!r} != {exp!r}")
                rec.case(sha("fmt", int(k.now), j), ["session-format"], sample=lambda: case)
    finally:
        k.shutdown()


def run(tier, scale=1.0):
    t0 = time.time()
    rec = Recorder(PID)
    for d in hyp.pool_run(shard_main, (tier, scale)):
        rec.merge(d)
    required = {"e2e-carry-into-time-bits": 1, "gen:seq": 1, "gen:sess": 1, "deviations:3": 1, "wrap": 1, "random-schedule": 1,
                "sequential:wraps": 1, "sequential:low-to-high-carry": 1, "e2e:callers-of-one-node": 1, "e2e:watchdogs-of-one-pass": 1, "e2e-init": 1, "session-format": 1, "threads:3": 1}
    return finish(rec, tier=tier, level="exploration", rule=RULE, assumptions=ASSUME, t0=t0,
                  exhaustive=True, required_classes=required,
                  extra_cov={"exhaustive_part": "all schedules with <= 3 deviations (<= 2 for the largest 3-thread configurations in quick) for every listed configuration"})


def replay(doc):
    rec = Recorder(PID)
    install_points()
    case = doc["case"]
    if "schedule" in case:
        dec = {int(i): c for i, c in case["schedule"].items()}
        results, ex, errs, done = make_world(case["kind"], case["start"], case["threads"], tuple(case["draws"]), dec)
        check_run(case["kind"], case["start"], case["threads"], tuple(case["draws"]), results, errs, done, rec, case)
    else:
        sequential(rec, 0, False, 0.2)
    if doc["signature"] in rec.violations:
        print(f"  replayed: {rec.violations[doc['signature']]['detail'][:300]}")
        print(f"VIOLATION property={PID} replay=(replay)")
        return 1
    print(f"[{PID}] replay: signature does not reproduce")
    return 0
