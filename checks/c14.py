"""C14 -- no fault or handler outcome stops service; workers survive, peers are served.

Fault enumeration: scenarios {inbound handshake, outbound handshake,
request/answer with basic and threading applications, DWR/DWA, DPR/DPA} x every
cut-point class of the frame being received / every step between request
arrival and answer flush x fault kind {orderly close, reset, read error, write
error, connect failure} x handler outcome {answer, none, exception, slow} x
thread limit 0..3 x up to 3 consecutive faults.  Oracle: no simulated thread
of the node / connection / application ended abnormally, and a differential
probe: a peer connects afterwards, completes CER/CEA and sends limit+2
requests; the normalised transcript must equal the same probe on a fresh node.
"""
from __future__ import annotations

import itertools
import time

from hypothesis import strategies as st

from dv import hyp, world as W
from dv.common import derive_seed
from dv.evidence import Recorder, finish
from checks.nodecommon import Result, record, generic_replay

PID = "C14"
RULE = ("fault sequences of 1..3 faults, each = (scenario, cut point class, fault kind), under a "
        "configuration (application kind basic/threading, thread limit 0..3, handler outcome plan over "
        "{answer, none, raise, slow}); grid: every scenario x cut class x fault kind x handler outcome x "
        "limit enumerated once, Hypothesis for sequences of up to 3 faults with randomised scheduling; "
        "each followed by the probe of limit+2 requests from a newly connected peer, compared with a "
        "fresh node. Non-trivial: >= 1 fault or non-answer handler outcome before the probe; distinct by case.")
ASSUME = ["the probe peer is a configured peer that was not used before the probe (peer3) or the same peer reconnecting",
          "probe transcript normalisation: per request (delivered to the handler?, Result-Code of its answer), CEA result code",
          "handler outcomes during the probe are 'answer'; during the fault phase they follow the plan",
          "a worker that ends because its owner was closed is normal; an exception escaping a worker is not"]

SCENARIOS = ["hs-in", "hs-out", "req", "req2", "dwr", "dpr", "node-req"]
CUTS = ["none", "0", "hdr-mid", "hdr-end", "avp-mid", "last-1", "full"]
FAULTS = ["eof", "reset", "read-error", "write-error", "connect-fail", "dpr-hold"]
OUTCOMES = ["answer", "none", "raise", "slow", "very-slow"]


def world_cfg(case):
    app = {"app_id": 4, "auth": True, "peers": [0, 1, 2], "kind": case["app_kind"], "max_threads": case.get("limit", 0),
           "handler": "answer", "slow_s": 2}
    peers = [{"name": "peer1.example", "ip": ["10.1.1.1"]},
             {"name": "peer2.example", "ip": ["10.1.1.2"], "persistent": True, "reconnect_wait": 2},
             {"name": "peer3.example", "ip": ["10.1.1.3"]}]
    return {"peers": peers, "apps": [app], "default_dial": "inprogress",
            # the first dials of the persistent peer may fail at once (no route to the host), in the caller's thread of start()
            "dial_plan": {"10.1.1.2": [["sync-error", 101]] * case["sync_failed_dials"]} if case.get("sync_failed_dials") else {},
            "node_timers": {"idle": 30, "dwa": 3, "cer": 3, "cea": 3, "wakeup": 2},
            "sched_seed": case.get("seed", 0), "yield_all": case.get("yield_all", False),
            "policy": "random" if case.get("seed", 0) % 2 else "fifo"}


def cut_of(frame: bytes, cls: str):
    n = len(frame)
    return {"none": None, "0": 0, "hdr-mid": 7, "hdr-end": 20, "avp-mid": min(n - 1, 31), "last-1": n - 1, "full": n}[cls]


def inject(w, c, fault):
    if fault == "eof":
        w.peer_close(c)
    elif fault == "reset":
        w.peer_reset(c)
    elif fault == "dpr-hold":
        # the peer says DPR (and gets its DPA), keeps the connection open while a handler may still be running - its
        # answer can then no longer be routed - and closes afterwards
        w.feed_msg(c, {"k": "DPR", "host": c.host or "peer1.example", "hbh": 0xee10, "e2e": 0xee10})
        w.advance(8)
        w.peer_close(c)
    elif fault == "read-error":
        c.peer_closed = True
        c.remote.sock.rx_err = 5          # EIO, no FIN
        w.run()
    elif fault == "write-error":
        c.remote.fail_writes(32)
        # make the node write something: a DWR from the peer forces a DWA
        if not c.node_closed:
            c.remote.send(W.build_msg({"k": "DWR", "host": c.host or "peer1.example", "hbh": 0xee01, "e2e": 0xee01}))
            c.in_frames.append(W.Frame(w.k.now, W.build_msg({"k": "DWR", "host": c.host or "peer1.example", "hbh": 0xee01, "e2e": 0xee01})))
        w.run()
        if not c.node_closed:
            # nothing was written (the DWR completed a frame begun earlier and was not seen as a message): the peer,
            # which is gone as far as this history goes, closes its end - it must not stay behind as a second,
            # open connection of its host (the known two-connections domain of C12 / C13)
            c.remote.close()
            w.run()
        c.peer_closed = True
    w.run()


def run_fault_phase(w, case):
    """Returns the number of faults actually injected."""
    pm = w.mods["peer"]
    injected = 0
    plan = case.get("outcomes", ["answer"])
    seen = [0]

    def beh(rec):
        o = plan[seen[0] % len(plan)]
        seen[0] += 1
        return o
    w.behaviour_fn = beh
    hbh = 0x8000
    for fi, (scenario, cutc, fault) in enumerate(case["faults"]):
        hbh += 0x10
        host = "peer1.example"
        if scenario == "hs-out":
            # the persistent peer2 is dialled by the node
            outs = [c for c in w.conns if c.remote.direction == "out" and not c.node_closed and not c.peer_closed]
            if not outs:
                w.advance(5)
                outs = [c for c in w.conns if c.remote.direction == "out" and not c.node_closed and not c.peer_closed]
            if not outs:
                continue
            c = outs[-1]
            c.host = "peer2.example"
            if fault == "connect-fail":
                w.connect_result(c, False)
                injected += 1
                continue
            w.connect_result(c, True)
            c.refresh()
            cers = [f for f in c.out if f.code == W.CMD_CE and f.is_request]
            if not cers:
                continue
            frame = W.build_msg({"k": "CEA", "host": "peer2.example", "auth": [4], "hbh": cers[-1].h["hbh"], "e2e": cers[-1].h["e2e"]})
        else:
            if fault == "connect-fail":
                continue
            live = [c for c in w.conns if c.remote.direction == "in" and c.host == host and not c.node_closed and not c.peer_closed]
            if scenario == "hs-in":
                c = w.accept("10.1.1.1")
                c.host = host
                frame = W.build_msg({"k": "CER", "host": host, "auth": [4], "hbh": hbh, "e2e": hbh})
            else:
                if live:
                    c = live[-1]
                else:
                    c = w.handshake_in(host, auth=[4], ip="10.1.1.1", hbh=hbh + 1)
                if c is None or c.node_closed:
                    continue
                if scenario in ("req", "req2"):
                    frame = W.build_msg({"k": "REQ", "host": host, "hbh": hbh + 2, "e2e": hbh + 2})
                    if scenario == "req2":
                        frame += W.build_msg({"k": "REQ", "host": host, "hbh": hbh + 3, "e2e": hbh + 3})
                        for extra in range(case.get("burst", 0)):
                            frame += W.build_msg({"k": "REQ", "host": host, "hbh": hbh + 4 + extra, "e2e": hbh + 4 + extra})
                elif scenario == "dwr":
                    frame = W.build_msg({"k": "DWR", "host": host, "hbh": hbh + 2, "e2e": hbh + 2})
                elif scenario == "dpr":
                    frame = W.build_msg({"k": "DPR", "host": host, "hbh": hbh + 2, "e2e": hbh + 2})
                elif scenario == "node-req":
                    # the application sends a request towards this peer; the fault hits while it waits
                    from diameter.message.commands import CreditControlRequest
                    msg = CreditControlRequest()
                    msg.session_id, msg.origin_host, msg.origin_realm = "n;1", W.NODE_HOST.encode(), W.NODE_REALM.encode()
                    msg.destination_realm, msg.service_context_id = W.NODE_REALM.encode(), "x"
                    msg.cc_request_type, msg.cc_request_number = 1, 0
                    app = w.apps[0]
                    w.app_call(lambda m=msg: app.send_request(m, timeout=4), name="sender")
                    frame = b""
        cut = cut_of(frame, cutc) if frame else None
        if cut is None:
            # fault before any byte of the frame
            inject(w, c, fault)
        else:
            if cut > 0:
                w.feed(c, frame[:cut])
            if cutc == "full" and scenario in ("req", "req2") and case["app_kind"] == "threading":
                # steps between arrival, worker start, answer submission and flush: let some time pass
                w.advance(case.get("dwell", 0))
                if fault in ("eof", "reset", "dpr-hold") and case.get("dwell", 0) == 0 and \
                        all(o in ("slow", "very-slow") for o in case.get("outcomes", ["answer"])):
                    # the requester is lost while its request is still being handled: no answer is ever sent, so
                    # its retransmission after a reconnect (same end-to-end id, T flag) is a request like any other
                    w._verif_never_answered = hbh + 2
            inject(w, c, fault)
        injected += 1
        w.advance(case.get("gap", 1))
    w.advance(15)     # let slow handlers and TOO_BUSY timeouts (5 s slot wait) finish
    if case["app_kind"] == "threading" and any(o in ("slow", "very-slow") for o in case.get("outcomes", [])):
        # handlers of one burst run one after the other when the limit is 1: every request seen may take 7 s more
        w.advance(8 * len(w.requests_seen))
    return injected


def probe(w, case, host, retransmit_e2e=None):
    """A peer connects, completes CER/CEA, sends limit+2 requests; normalised transcript."""
    w.behaviour_fn = lambda rec: "answer"
    limit = case.get("limit", 0)
    ip = "10.1.1.%d" % (int(host[4]))
    n_seen0 = len(w.requests_seen)
    c = w.handshake_in(host, auth=[4], ip=ip, hbh=0xf100)
    out = {"cea": None, "reqs": []}
    if c is None:
        out["cea"] = "no-listener"
        return out
    ceas = [f for f in c.refresh() if f.code == W.CMD_CE and not f.is_request]
    out["cea"] = ceas[0].result_code() if ceas else "none"
    n = limit + 2
    for i in range(n):
        w.feed_msg(c, {"k": "REQ", "host": host, "hbh": 0xf200 + i, "e2e": 0xf200 + i}, run=False)
    w.run()
    w.advance(8)
    c.refresh()
    for i in range(n):
        ans = [f for f in c.out if not f.is_request and f.h["hbh"] == 0xf200 + i]
        delivered = any(r["hbh"] == 0xf200 + i for r in w.requests_seen[n_seen0:])
        out["reqs"].append((delivered, ans[0].result_code() if ans else None, len(ans)))
    # a retransmission (T flag) of a request that was never answered - on a fresh node: of one never seen
    n_seen1 = len(w.requests_seen)
    w.feed_msg(c, {"k": "REQ", "host": host, "hbh": 0xf2f0, "e2e": retransmit_e2e if retransmit_e2e is not None else 0xabcdef, "T": True})
    w.advance(8)
    ans = [f for f in c.refresh() if not f.is_request and f.h["hbh"] == 0xf2f0]
    out["retransmit"] = (any(r["hbh"] == 0xf2f0 for r in w.requests_seen[n_seen1:]), ans[0].result_code() if ans else None, len(ans))
    # a DWR must still be answered
    w.feed_msg(c, {"k": "DWR", "host": host, "hbh": 0xf300, "e2e": 0xf300})
    out["dwa"] = len([f for f in c.refresh() if f.code == W.CMD_DW and not f.is_request and f.h["hbh"] == 0xf300])
    return out


_fresh_cache: dict = {}


def fresh_probe(case, host):
    key = (case["app_kind"], case.get("limit", 0), host)
    if key not in _fresh_cache:
        c2 = dict(case, faults=[], seed=0, yield_all=False)
        w = W.NodeWorld(world_cfg(c2))
        try:
            w.start()
            w.advance(8)
            _fresh_cache[key] = probe(w, c2, host)
        finally:
            w.close()
    return _fresh_cache[key]


def evaluate(case) -> Result:
    res = Result()
    w = W.NodeWorld(world_cfg(case))
    try:
        w.start()
        injected = run_fault_phase(w, case)
        if case.get("long_gap"):
            # the peers come back after a long silence (longer than the 1000 s the per-peer statistics look back)
            w.advance(case["long_gap"])
            res.classes.append("probe:after-long-silence")
        host = case.get("probe_host", "peer3.example")
        # a peer that still has a connection cannot be the probe peer
        # (also when the node has not noticed the loss yet: two simultaneous connections of one
        # peer are the known finding recorded for C12/C13, not this property's subject)
        pm = w.mods["peer"]

        def node_thinks_live(c):
            nc = w.node_conn_for(c)
            return nc is not None and nc.state != pm.PEER_CLOSED
        if any(c.host == host and not c.node_closed and node_thinks_live(c) for c in w.conns):
            host = "peer3.example"
        rt = getattr(w, "_verif_never_answered", None) if host == "peer1.example" else None
        if rt is not None:
            res.classes.append("probe:retransmission-of-unanswered")
        got = probe(w, case, host, rt)
        # no processing capacity is consumed for good: six seconds later (the workers poll their stop flag every
        # five) the connection worker threads alive are those of the sockets that are still open
        w.advance(6)
        open_conns = [c for c in w.conns if not c.node_closed]
        workers = [t.name for t in w.k.live_threads() if "work_read_queue" in t.name or "work_write_queue" in t.name]
        if len(workers) > 2 * len(open_conns):
            res.v("C14/worker-threads-left-behind", f"{len(workers)} connection worker threads alive for {len(open_conns)} open "
                  f"connection(s): {workers[:6]}")
        want = fresh_probe(case, host)          # (a world of its own: nothing of this one may run afterwards)
        for sig, d in W.monitor_threads(w):
            res.v(f"C14/thread-died/{sig}", d)
        if got != want:
            kind = "cea" if got["cea"] != want["cea"] else "requests" if got["reqs"] != want["reqs"] else \
                "retransmission" if got.get("retransmit") != want.get("retransmit") else "watchdog"
            res.v(f"C14/probe-differs/{kind}", f"after the faults the probe gives {got}, a fresh node gives {want}")
        outcomes = case.get("outcomes", ["answer"])
        res.nontrivial = injected >= 1 or any(o != "answer" for o in outcomes)
        res.classes += [f"app:{case['app_kind']}", f"limit:{case.get('limit', 0)}", f"nfaults:{injected}",
                        f"sync-failed-dials:{min(case.get('sync_failed_dials', 0), 2)}"]
        for (sc, cutc, f) in case["faults"]:
            res.classes += [f"scenario:{sc}", f"cut:{cutc}", f"fault:{f}"]
        for o in outcomes:
            res.classes.append(f"outcome:{o}")
        res.sample = {"case": case, "probe": got}
        return res
    finally:
        w.close()


def shard_main(shard, nshards, tier, scale):
    rec = Recorder(PID)
    thorough = tier == "thorough"
    shrunk = set()
    # grid: scenario x cut x fault (single fault), for each app kind / limit / outcome
    jobs = []
    for app_kind, limit in (("basic", 0), ("threading", 0), ("threading", 1), ("threading", 2), ("threading", 3)):
        for outcome in OUTCOMES:
            for sc in SCENARIOS:
                for cutc in CUTS:
                    for f in FAULTS[:5]:
                        if (f == "connect-fail") != (sc == "hs-out" and cutc == "none"):
                            if f == "connect-fail":
                                continue
                        if app_kind == "basic" and outcome in ("slow", "very-slow"):
                            continue
                        if not thorough and sc in ("dwr", "dpr", "hs-in", "hs-out") and (outcome != "answer" or limit not in (0, 1)):
                            continue      # handler outcome / limit are irrelevant for these scenarios
                        jobs.append({"app_kind": app_kind, "limit": limit, "outcomes": [outcome],
                                     "faults": [[sc, cutc, f]], "dwell": 1 if outcome == "slow" else 0})
    # handler outcomes alone (no transport fault): limit+1 requests each with the outcome, then the probe
    for app_kind, limit in (("basic", 0), ("threading", 0), ("threading", 1), ("threading", 2), ("threading", 3)):
        for outcome in OUTCOMES:
            for reps in (1, 2, 4):
                jobs.append({"app_kind": app_kind, "limit": limit, "outcomes": [outcome],
                             "faults": [["req2", "full", "eof"]] * reps, "gap": 3, "probe_host": "peer1.example"})
                if app_kind == "threading":
                    # more requests than slots, requester lost while some still wait for a slot
                    jobs.append({"app_kind": app_kind, "limit": limit, "outcomes": [outcome], "burst": 2,
                                 "faults": [["req2", "full", "eof"]] * reps, "gap": 1, "probe_host": "peer3.example"})
    # requester lost while its request is being handled; afterwards it reconnects and retransmits that request
    for limit in (0, 1, 2):
        for outcome in ("slow", "very-slow"):
            for f in ("eof", "reset", "dpr-hold"):
                for sc in ("req", "req2"):
                    jobs.append({"app_kind": "threading", "limit": limit, "outcomes": [outcome], "faults": [[sc, "full", f]],
                                 "dwell": 0, "gap": 1, "probe_host": "peer1.example"})
    for app_kind, limit in (("basic", 0), ("threading", 1)):
        for nfail in (1, 2, 3):
            jobs.append({"app_kind": app_kind, "limit": limit, "outcomes": ["answer"], "faults": [["req", "full", "eof"]],
                         "sync_failed_dials": nfail, "gap": 3})
    # the peer is served, loses its connection, stays away for longer than the statistics look back, and returns
    for app_kind, limit in (("basic", 0), ("threading", 1)):
        for f in ("eof", "reset"):
            for sc in ("req", "dwr", "hs-in"):
                for gap_ in (1001, 1300):
                    jobs.append({"app_kind": app_kind, "limit": limit, "outcomes": ["answer"], "faults": [[sc, "full", f]],
                                 "gap": 1, "probe_host": "peer1.example", "long_gap": gap_})
    if shard == 0:
        rec.extra["grid_jobs"] = len(jobs)
    for case in jobs[shard::nshards]:
        res = evaluate(case)
        res.classes.append("grid")
        record(rec, case, res, evaluate, "faults", shrunk)

    n = int((6000 if thorough else 350) * scale)

    @st.composite
    def cases(draw):
        kind = draw(st.sampled_from(["basic", "threading", "threading"]))
        f = st.tuples(st.sampled_from(SCENARIOS), st.sampled_from(CUTS), st.sampled_from(FAULTS[:4] + ["dpr-hold"]))
        return {"app_kind": kind, "limit": draw(st.integers(0, 3)) if kind == "threading" else 0,
                "outcomes": draw(st.lists(st.sampled_from(OUTCOMES if kind == "threading" else OUTCOMES[:3]), min_size=1, max_size=4)),
                "burst": draw(st.integers(0, 3)),
                "faults": [list(x) for x in draw(st.lists(f, min_size=1, max_size=3))],
                "dwell": draw(st.integers(0, 3)), "gap": draw(st.integers(0, 4)),
                "probe_host": draw(st.sampled_from(["peer3.example", "peer1.example"])),
                "sync_failed_dials": draw(st.sampled_from([0, 0, 1, 2])),
                "long_gap": draw(st.sampled_from([0, 0, 0, 0, 0, 0, 999, 1200])),
                "seed": draw(st.integers(0, 7)), "yield_all": draw(st.booleans())}

    def body(case):
        res = evaluate(case)
        res.classes.append("random")
        record(rec, case, res, evaluate, "faults", shrunk)
    hyp.run_given(cases(), body, n, derive_seed(PID, "rand", shard), rec=rec)
    return rec.dump()


def run(tier, scale=1.0):
    t0 = time.time()
    rec = Recorder(PID)
    for d in hyp.pool_run(shard_main, (tier, scale)):
        rec.merge(d)
    required = {"sync-failed-dials:2": 1, "probe:after-long-silence": 1} | {f"scenario:{s}": 1 for s in SCENARIOS} | {f"cut:{c}": 1 for c in CUTS} | \
               {f"fault:{f}": 1 for f in FAULTS} | {f"outcome:{o}": 1 for o in OUTCOMES} | \
               {"limit:3": 1, "nfaults:3": 1, "app:basic": 1, "probe:retransmission-of-unanswered": 1}
    return finish(rec, tier=tier, level="fault_enumeration", rule=RULE, assumptions=ASSUME, t0=t0,
                  required_classes=required,
                  extra_cov={"exhaustive_part": "single-fault grid: scenario x cut class x fault kind x handler outcome x (application kind, limit)"})


def replay(doc):
    return generic_replay(PID, evaluate, doc)
