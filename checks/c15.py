"""C15 -- outbound bytes = queued messages concatenated FIFO, intact, exactly once.

One READY connection of a real node; 2..6 messages queued by 1..3 simulated
threads; partial-write plans (each send() accepts 1..n bytes or fails softly);
an unencodable message in some cases.  All interleavings of the queueing
threads, the connection's writer and the node's I/O loop with <= 2 (quick) /
<= 3 (thorough) deviations at line/call granularity are enumerated (E5), larger
bounds are sampled.  Oracle: the bytes accepted by the virtual socket equal the
concatenation of the messages' encodings in the observed order of put().
"""
from __future__ import annotations

import errno
import random as _random
import time

from hypothesis import strategies as st

from dv import hyp, sched, simkernel as sk, world as W
from dv.common import derive_seed, fp
from dv.evidence import Recorder, finish

PID = "C15"
RULE = ("configurations = (messages per queueing thread for 1..3 threads on 1..2 connections, 2..6 messages in total, write plan "
        "of partial accepts 1..n bytes and soft errors EAGAIN/EINTR/ENOBUFS, optional unencodable message: wrong attribute type / a non-AVP object in the AVP list / header field out of range) x "
        "every schedule with <= 2 deviations (quick) / <= 3 (thorough, base configuration) - a deviation is "
        "a preemption at a line or call of work_write_queue / add_out_msg / remove_out_bytes / "
        "demand_attention / send_message / the write branch of _handle_connections / the AVP loop of Message.as_bytes, or a non-default "
        "pick at a blocking point - enumerated exhaustively; random schedules with up to 8 deviations. "
        "Non-trivial: >= 1 deviation; distinct by (configuration, schedule).")
ASSUME = ["SCTP configurations: the connection is switched to SCTP after its (TCP) handshake and the virtual socket offers sctp_send with send()'s contract; pysctp itself is not installed",
          "queueing order = observed order of Queue.put() on the connection's message queue",
          "preemption granularity: source line and Python-level call, plus the inside of the virtual send() (which keeps the caller's buffer exported meanwhile, as the system call does); other switches inside C code are not modelled",
          "soft write errors leave the socket writable (the node retries in its next loop turn)",
          "the expected encoding of each message is computed with the library encoder before queueing (C02's subject)"]

SOFT = [errno.EAGAIN, errno.EINTR, errno.ENOBUFS]

CONFIGS = [
    # per-thread message counts, write plan, unencodable index (global) or None
    {"name": "base-2msgs", "threads": [2], "plan": [10, 30], "bad": None},
    {"name": "2msgs-bytewise-start", "threads": [2], "plan": [1, 1, 1, 57], "bad": None},
    {"name": "2threads-1each", "threads": [1, 1], "plan": [25, ["soft", errno.EAGAIN], 40], "bad": None},
    {"name": "2msgs-soft-errors", "threads": [2], "plan": [["soft", errno.EINTR], 5, ["soft", errno.ENOBUFS], 70], "bad": None},
    {"name": "3msgs-one-unencodable", "threads": [3], "plan": [33], "bad": 1},
    {"name": "2threads-2each", "threads": [2, 2], "plan": [7, 64, 3], "bad": None},
    {"name": "3threads", "threads": [1, 2, 1], "plan": [50, 50], "bad": 2},
    {"name": "6msgs", "threads": [3, 3], "plan": [100, ["soft", errno.EAGAIN], 1, 200], "bad": None},
    {"name": "3msgs-one-unencodable/none-in-avp-list", "threads": [3], "plan": [33], "bad": 1, "bad_kind": "none-in-avp-list"},
    {"name": "3msgs-one-unencodable/header-out-of-range", "threads": [2, 1], "plan": [50], "bad": 0, "bad_kind": "header-out-of-range"},
    # the SCTP arm of the I/O loop's write branch (the connection is marked SCTP, the virtual socket offers sctp_send)
    {"name": "sctp-2threads", "threads": [2, 1], "plan": [7, 1, ["soft", errno.EAGAIN], 33, 20, ["soft", errno.ENOBUFS], 150], "bad": None, "sctp": True},
    {"name": "sctp-3msgs", "threads": [3], "plan": [64], "bad": 1, "sctp": True},
    # two connections: their writers encode at the same time (queueing thread i serves connection i % 2)
    {"name": "2conns-1each", "threads": [1, 1], "plan": [40], "bad": None, "conns": 2},
    {"name": "2conns-2each", "threads": [2, 2], "plan": [9, ["soft", errno.EAGAIN], 120], "bad": None, "conns": 2},
    # a first message of more than 64 KiB towards a peer that does not read for a while: the later ones queue up behind it
    {"name": "big-first-slow-peer", "threads": [4], "plan": [["soft", errno.EAGAIN]] * 8 + [4096, ["soft", errno.EAGAIN], 70000], "bad": None, "big": 0},
    # a wake-up pipe that holds one / two of the 6-byte tokens (scaled-down stand-in for the 64 KiB pipe and > 10922 pending
    # wake-ups): the writer has to wait for the I/O loop to drain the pipe, and must not do so holding what the loop needs
    {"name": "tiny-pipe-1token", "threads": [3, 3], "plan": [64], "bad": None, "pipe": 6},
    {"name": "tiny-pipe-2tokens", "threads": [4, 1], "plan": [30, ["soft", errno.EAGAIN], 200], "bad": 2, "pipe": 12},
    {"name": "big-second-slow-peer", "threads": [2, 2], "plan": [20, ["soft", errno.EAGAIN], ["soft", errno.EAGAIN], ["soft", errno.EAGAIN], 66000], "bad": None, "big": 1},
]


def _message_as_bytes():
    from diameter.message import Message
    return Message.as_bytes


def install_points():
    mods = sk.load_node()
    P, N = mods["peer"].PeerConnection, mods["node"].Node
    return sched.install({
        P.work_write_queue: None, P.add_out_msg: None, P.remove_out_bytes: None, P.demand_attention: None,
        P.write_buffer: None, N.send_message: None, _message_as_bytes(): r"as_packed|get_buffer|for avp in",
        N._handle_connections: r"write_buffer|write_lock|remove_out_bytes|\.send\(|sctp_send|select\.select|w_list|ready_w|wsock|interrupt_read",
    })


def run_schedule(cfg, decisions=None, rng=None, p=0.0, maxr=0):
    from diameter.message.commands import DeviceWatchdogRequest
    nconns = cfg.get("conns", 1)
    w = W.NodeWorld({"peers": [{"name": "peer1.example", "ip": ["10.1.1.1"]}, {"name": "peer2.example", "ip": ["10.1.1.2"]}],
                     "apps": [{"app_id": 4, "auth": True, "peers": [0, 1]}],
                     "node_timers": {"idle": 5000, "dwa": 50, "cer": 50, "cea": 50, "wakeup": 5}})
    try:
        w.start()
        cs = [w.handshake_in(f"peer{i + 1}.example", auth=[4], ip=f"10.1.1.{i + 1}", hbh=0x100 + i) for i in range(nconns)]
        ncs = [w.node_conn_for(c) for c in cs]
        bases = [len(c.remote.received()) for c in cs]
        c, nc = cs[0], ncs[0]
        if cfg.get("sctp"):
            import types
            nm = w.mods["node"]
            if getattr(nm, "sctp", None) is None:
                nm.sctp = types.SimpleNamespace(MSG_UNORDERED=0x1)     # pysctp is not installed here
            for x in ncs:
                x.socket_proto = w.mods["peer"].PEER_TRANSPORT_SCTP
        sk.Pipe.CAPACITY = cfg.get("pipe", 65536)
        sock = c.remote.sock
        for step in cfg["plan"]:
            sock.tx_plan.append(tuple(step) if isinstance(step, list) else step)
        # queueing order: the put log of the connection's message queue when it is a queue.Queue (simulated here);
        # for any other container the order is taken from the calls of add_out_msg - two calls that overlap in time
        # may be transmitted in either order, a call that returned before another began comes first
        from_log = all(isinstance(getattr(x, "_write_msg_queue", None), sk.SimQueue) for x in ncs)
        calls = {id(x): [] for x in ncs}
        tick = [0]
        for x in ncs:
            if from_log:
                x._write_msg_queue._put_log = []
            else:
                def wrapped(m, real=x.add_out_msg, log=calls[id(x)]):
                    tick[0] += 1
                    ev = {"m": m, "start": tick[0], "end": None}
                    log.append(ev)
                    try:
                        return real(m)
                    finally:
                        tick[0] += 1
                        ev["end"] = tick[0]
                x.add_out_msg = wrapped
        msgs, expect = [], {}
        k = 0
        per_thread = []
        for ti, n in enumerate(cfg["threads"]):
            mine = []
            for j in range(n):
                m = DeviceWatchdogRequest()
                m.header.hop_by_hop_identifier = 0xc000 + k
                m.header.end_to_end_identifier = 0xd000 + k
                m.origin_host = b"node.example"
                m.origin_realm = b"example" + bytes([0x61 + k]) * (k * 3)      # different lengths
                if cfg.get("big") == k:
                    m.origin_realm = b"big." + bytes([0x61 + k]) * 70000
                if cfg["bad"] == k:
                    # cannot be encoded: by a codec error, or by any other failure inside as_bytes()
                    kind_ = cfg.get("bad_kind", "attr-type")
                    if kind_ == "attr-type":
                        m.origin_state_id = "not-an-integer"                   # AvpEncodeError
                    elif kind_ == "none-in-avp-list":
                        m.append_avp(None)                                     # AttributeError
                    elif kind_ == "header-out-of-range":
                        m.header.end_to_end_identifier = 1 << 32               # ConversionError
                    expect[id(m)] = None
                else:
                    expect[id(m)] = m.as_bytes()
                mine.append(m)
                msgs.append(m)
                k += 1
            per_thread.append(mine)
        ex = sched.Explorer(decisions, rng=rng, p_switch=p, max_random_switches=maxr)
        sched.attach(w.k, ex, io_points=True)

        def queuer(mine, target):
            for m in mine:
                w.node.send_message(target, m)
        boxes = [w.k.spawn(queuer, name=f"queuer{i}", args=(mine, ncs[i % nconns])) for i, mine in enumerate(per_thread)]
        ex.armed = True
        w.k.run()
        ex.armed = False
        w.k.run()
        problems = []
        n_queued = sum(len(x._write_msg_queue._put_log) if from_log else len(calls[id(x)]) for x in ncs)
        if n_queued != len(msgs):
            problems.append(("not-all-queued", f"{n_queued} of {len(msgs)} messages were queued"))
        for ci_ in range(nconns):
            got = cs[ci_].remote.received()[bases[ci_]:]
            if from_log:
                order = list(ncs[ci_]._write_msg_queue._put_log)
            else:
                order = _order_from_stream(got, calls[id(ncs[ci_])], expect)
            want = b"".join(expect[id(m)] for m in order if expect.get(id(m)) is not None)
            if got == want:
                continue
            if len(got) > len(want):
                kind = "duplicated-or-extra-bytes"
            elif want.startswith(got):
                kind = "incomplete"
            elif sorted(got) == sorted(want) or len(got) == len(want):
                kind = "reordered-or-corrupted"
            else:
                kind = "lost-bytes"
            problems.append((kind, f"socket accepted {len(got)} bytes, expected {len(want)}; first difference at "
                                   f"{next((i for i, (a, b) in enumerate(zip(got, want)) if a != b), min(len(got), len(want)))}"))
        died = W.monitor_threads(w)
        for sig, d in died:
            problems.append((f"thread-died/{sig}", d))
        for x in ncs:
            if x.write_buffer:
                problems.append(("buffer-not-flushed", f"{len(x.write_buffer)} bytes left in the write buffer at quiescence"))
        return ex, problems
    finally:
        sk.Pipe.CAPACITY = 65536
        w.close()


def _order_from_stream(got, calls, expect):
    """The order in which the stream carries the queued messages, if it is one that the calls of add_out_msg allow
    (every message whole and once; a call that returned before another one began comes first); otherwise the order
    of the calls, which then fails the comparison."""
    by_bytes = {}
    for ev in calls:
        b = expect.get(id(ev["m"]))
        if b is not None:
            by_bytes.setdefault(b, []).append(ev)
    fallback = [ev["m"] for ev in calls]
    seen, pos = [], 0
    while pos < len(got):
        ln = int.from_bytes(got[pos + 1:pos + 4], "big") if pos + 4 <= len(got) else 0
        evs = by_bytes.get(bytes(got[pos:pos + ln])) if ln >= 20 else None
        if not evs:
            return fallback
        seen.append(evs.pop(0))
        pos += ln
    for i, a in enumerate(seen):
        for b in seen[i + 1:]:
            if b["end"] is not None and b["end"] < a["start"]:
                return fallback          # b was queued strictly before a, yet is transmitted after it
    unencodable = [ev["m"] for ev in calls if expect.get(id(ev["m"])) is None]
    return [ev["m"] for ev in seen] + unencodable + [ev["m"] for evs in by_bytes.values() for ev in evs]


def shard_main(shard, nshards, tier, scale):
    rec = Recorder(PID)
    thorough = tier == "thorough"
    info = install_points()
    if shard == 0:
        rec.extra["preemption_points"] = info
    total = 0
    for ci, cfg in enumerate(CONFIGS):
        if thorough:
            bound = 3 if ci == 0 else 2
        else:
            bound = 2 if ci < 5 or cfg["name"] == "2conns-1each" else 1
        holder = {}

        def run_one(dec, cfg=cfg):
            ex, problems = run_schedule(cfg, dec)
            holder["last"] = problems
            return ex.trace
        for dec, trace in sched.enumerate_schedules(run_one, bound, shard, nshards):
            case = {"config": cfg["name"], "cfg": ci, "schedule": {str(i): c for i, c in sorted(dec.items())}}
            for kind, detail in holder["last"]:
                rec.violation(f"C15/{kind}", case, detail)
            total += 1
            rec.case(fp(ci, tuple(sorted(dec.items()))) if dec else None,
                     [f"cfg:{cfg['name']}", f"deviations:{len(dec)}", "exhaustive"],
                     sample=lambda: dict(case, choice_points=len(trace)))
        if shard == 0:
            rec.extra[f"choice_points_{cfg['name']}"] = len(trace)
    rec.extra["exhaustive_schedules"] = total

    n = int((5000 if thorough else 400) * scale)

    def rbody(t):
        ci, seed, maxr = t
        cfg = CONFIGS[ci]
        ex, problems = run_schedule(cfg, None, rng=_random.Random(seed), p=0.08, maxr=maxr)
        case = {"config": cfg["name"], "cfg": ci, "schedule": {str(i): c for i, c in sorted(ex.taken.items())}}
        for kind, detail in problems:
            rec.violation(f"C15/{kind}", case, detail)
        rec.case(fp("r", ci, tuple(sorted(ex.taken.items()))) if ex.taken else None,
                 [f"cfg:{cfg['name']}", f"deviations:{min(len(ex.taken), 8)}", "random"], sample=lambda: case)
    hyp.run_given(st.tuples(st.integers(0, len(CONFIGS) - 1), st.integers(0, 1 << 30), st.integers(3, 8)), rbody, n,
                  derive_seed(PID, "rand", shard), rec=rec)
    return rec.dump()


def run(tier, scale=1.0):
    t0 = time.time()
    rec = Recorder(PID)
    for d in hyp.pool_run(shard_main, (tier, scale)):
        rec.merge(d)
    required = {"deviations:2": 1, "random": 1, "cfg:3threads": 1, "cfg:6msgs": 1, "cfg:2msgs-soft-errors": 1,
                "cfg:3msgs-one-unencodable": 1, "cfg:2conns-1each": 1, "cfg:2conns-2each": 1, "cfg:3msgs-one-unencodable/none-in-avp-list": 1,
                "cfg:3msgs-one-unencodable/header-out-of-range": 1, "cfg:sctp-2threads": 1, "cfg:tiny-pipe-1token": 1, "cfg:tiny-pipe-2tokens": 1, "cfg:sctp-3msgs": 1}
    return finish(rec, tier=tier, level="exploration", rule=RULE, assumptions=ASSUME, t0=t0, exhaustive=True,
                  required_classes=required,
                  extra_cov={"exhaustive_part": "all schedules within the deviation bound for every listed configuration"})


def replay(doc):
    install_points()
    case = doc["case"]
    dec = {int(i): c for i, c in case["schedule"].items()}
    ex, problems = run_schedule(CONFIGS[case["cfg"]], dec)
    sigs = [f"C15/{k}" for k, _ in problems]
    if doc["signature"] in sigs:
        print(f"  replayed: {problems[0][1][:300]}")
        print(f"VIOLATION property={PID} replay=(replay)")
        return 1
    print(f"[{PID}] replay: signature does not reproduce (got {sigs})")
    return 0
