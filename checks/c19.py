"""C19 -- per-transaction and per-connection state is released; nothing grows with use.

Metamorphic relation: for each transaction kind and each connection outcome the
same scenario is run with N and 10N repetitions on a real node in the
simulation; after quiescence plus the workers' poll period the size of every
container reachable from the node, its applications and peers (discovered
structurally, read-only), the number of live simulated threads and of open
virtual sockets must be equal, except containers with an intrinsic bound
(deque(maxlen), the per-second counters) which must respect it.
"""
from __future__ import annotations

import collections
import time

from hypothesis import strategies as st

from dv import hyp, simkernel as sk, world as W
from dv.common import derive_seed, fp
from dv.evidence import Recorder, finish
from checks.nodecommon import Result, record

PID = "C19"
RULE = ("scenarios = transaction kinds {inbound request/answer (basic, threading), outbound request/answer, "
        "outbound request timing out, DWR from the peer, DWR from the node, rejected requests 5005/3007/"
        "3003, T-flag duplicates} and connection outcomes {established then closed by the peer / reset / "
        "after DPR, dial refused synchronously, dial failed asynchronously, CER rejected by the peer, CEA "
        "timeout, unknown peer, accept without CER (CER timeout), newcomer while stopping}; each run with "
        "(N, 10N) for N in {1, 10} (quick) / {1, 10, 100} (thorough) and Hypothesis-drawn mixes of kinds. "
        "Non-trivial: N >= 10 with at least one failing/rejected outcome kind; distinct by (scenario, N).")
ASSUME = ["every request is answered and every connection has ended before the measurement; 6 virtual seconds pass first (worker poll period)",
          "containers with an intrinsic bound are exempt from equality and checked against the bound: deque(maxlen), SecondSlotCounter (maxage+1 slots)",
          "repeated connection attempts use the same peer identities (1..2 peers)",
          "'refused because the peer is already connected' is only reachable through a dial/accept race and is not enumerated"]


# --------------------------------------------------------------------------
# structural measurement
# --------------------------------------------------------------------------
def measure(w) -> dict:
    seen = set()

    class _Sizes(dict):
        """several objects can share a path (peers, connections): free containers add up, bounded ones keep the largest"""
        def __setitem__(self, path, v):
            old = self.get(path)
            if old is not None:
                if old[0] == "free" and v[0] == "free":
                    v = ("free", old[1] + v[1], None)
                elif old[0] == "bounded" and v[0] == "bounded":
                    v = ("bounded", max(old[1], v[1]), max(old[2], v[2]))
                else:
                    v = ("free", old[1] + v[1], None)
            dict.__setitem__(self, path, v)
    sizes = _Sizes()

    def walk(obj, path, depth):
        if id(obj) in seen or depth > 9:
            return
        seen.add(id(obj))
        mod = type(obj).__module__ or ""
        if isinstance(obj, collections.deque):
            sizes[path] = ("bounded", len(obj), obj.maxlen) if obj.maxlen is not None else ("free", len(obj), None)
            return
        if isinstance(obj, (dict, list, set, tuple, frozenset)):
            if not isinstance(obj, (tuple, frozenset)):
                if isinstance(obj, dict) and ".statistics." in path:
                    # per-peer statistics keyed by command name / result-code class: a finite key space that
                    # fills up with the kinds of traffic seen, not with their number (documented statistics window)
                    sizes[path] = ("bounded", len(obj), 64)
                else:
                    sizes[path] = ("free", len(obj), None)
            items = obj.values() if isinstance(obj, dict) else obj
            for i, v in enumerate(list(items)[:50]):
                if type(v).__module__ and str(type(v).__module__).startswith("diameter") or isinstance(v, (dict, list, set, collections.deque)):
                    walk(v, f"{path}[*]", depth + 1)
            return
        if mod.startswith("diameter.node") or mod.startswith("dv.world") or mod.startswith("checks."):
            name = type(obj).__name__
            if name == "SecondSlotCounter":
                sizes[path + "._slots"] = ("bounded", len(obj._slots), obj._maxage + 2)
                return
            if name in ("SimQueue",):
                return
            try:
                attrs = vars(obj)
            except TypeError:
                return
            for k, v in attrs.items():
                if k in ("logger", "connection_logger", "stats_logger", "msg_dump", "_node", "_verif_cfg", "mods", "k", "net", "cfg",
                         "world", "node"):
                    continue
                if type(v).__name__ == "SimQueue":
                    sizes[f"{path}.{k}(queue)"] = ("free", v.qsize(), None)
                    continue
                walk(v, f"{path}.{k}", depth + 1)
    walk(w.node, "node", 0)
    for i, a in enumerate(w.apps):
        walk(a, f"app{i}", 0)
    out = {p: v for p, v in sizes.items()}
    out["<live-threads>"] = ("free", len([t for t in w.k.live_threads() if t.role != "harness"]), None)
    out["<open-sockets>"] = ("free", len(w.net.open_sockets()), None)
    out["<open-fds>"] = ("free", len(w.net.fds), None)
    return out


# --------------------------------------------------------------------------
# scenarios
# --------------------------------------------------------------------------
def base_cfg(kind="basic", **kw):
    cfg = {"peers": [{"name": "peer1.example", "ip": ["10.1.1.1"]},
                     {"name": "peer2.example", "ip": ["10.1.1.2"], "persistent": bool(kw.get("dial")), "reconnect_wait": 1}],
           "apps": [{"app_id": 4, "auth": True, "peers": [0, 1], "kind": kind, "handler": "answer",
                     "max_threads": kw.get("max_threads", 0)}],
           "node_timers": {"idle": kw.get("idle", 100000), "dwa": 5, "cer": 3, "cea": 3, "wakeup": 1},
           "default_dial": kw.get("default_dial", "inprogress"), "retransmit_queue_size": 8}
    return cfg


def sc_inbound(w, n, kind):
    c = w.handshake_in("peer1.example", auth=[4])
    for i in range(n):
        w.feed_msg(c, {"k": "REQ", "host": "peer1.example", "hbh": 0x1000 + i, "e2e": 0x1000 + i})
        if kind == "threading" and i % 20 == 19:
            w.advance(1)
    w.advance(2)
    w.peer_close(c)


def sc_inbound_open(w, n, kind, behaviour=None):
    """requests answered on a connection that stays up: the per-transaction records have to go when the transaction
    completes, not when the connection does (measured before the connection is closed)"""
    c = w.handshake_in("peer1.example", auth=[4])
    old = w.behaviour_fn
    if behaviour is not None:
        w.behaviour_fn = lambda rec: behaviour
    for i in range(n):
        w.feed_msg(c, {"k": "REQ", "host": "peer1.example", "hbh": 0x1000 + i, "e2e": 0x1000 + i})
        if kind == "threading" and i % 20 == 19:
            w.advance(1)
    w.advance(2)
    w.behaviour_fn = old


def sc_inbound_open_raise(w, n, kind):
    """the handler fails: the node answers 5012 itself"""
    sc_inbound_open(w, n, kind, "raise")


def sc_inbound_open_direct(w, n, kind):
    """the application hands its answers to Node.send_message directly (documented as supported)"""
    c = w.handshake_in("peer1.example", auth=[4])
    old = w.behaviour_fn
    w.behaviour_fn = lambda rec: "hold"
    for i in range(n):
        w.feed_msg(c, {"k": "REQ", "host": "peer1.example", "hbh": 0x1000 + i, "e2e": 0x1000 + i})
        if kind == "threading" and i % 20 == 19:
            w.advance(1)
    w.advance(2)
    w.behaviour_fn = old
    nc = w.node_conn_for(c)
    held = [r for r in w.requests_seen if r["answered"] == 0]

    def answer_all():
        for r in held:
            ans = w.apps[r["app"]].generate_answer(r["msg"], result_code=2001)
            w._fill_answer(ans, r["msg"])
            w.node.send_message(nc, ans)
            r["answered"] += 1
    w.app_call(answer_all, name="direct-answers")
    w.advance(2)


def sc_inbound_open_rejected(w, n, kind):
    """requests the node rejects itself, on a connection that stays up"""
    c = w.handshake_in("peer1.example", auth=[4])
    variants = [{"bare": True}, {"app": 9999}, {"dest_realm": "elsewhere.example"}, {"code": 999, "bare": True}]
    for i in range(n):
        w.feed_msg(c, dict({"k": "REQ", "host": "peer1.example", "hbh": 0x1000 + i, "e2e": 0x1000 + i}, **variants[i % len(variants)]))
    w.advance(2)


def sc_inbound_experimental(w, n, kind):
    """requests answered with Experimental-Result instead of Result-Code"""
    c = w.handshake_in("peer1.example", auth=[4])
    old = w.behaviour_fn
    w.behaviour_fn = lambda rec: "answer-experimental"
    for i in range(n):
        w.feed_msg(c, {"k": "REQ", "host": "peer1.example", "hbh": 0x1000 + i, "e2e": 0x1000 + i})
        if kind == "threading" and i % 20 == 19:
            w.advance(1)
    w.advance(2)
    w.behaviour_fn = old
    w.peer_close(c)


def sc_inbound_many_origins(w, n, kind):
    """a relay forwards requests of N different origin hosts over one connection"""
    c = w.handshake_in("peer1.example", auth=[4])
    for i in range(n):
        w.feed_msg(c, {"k": "REQ", "host": f"client{i}.example", "hbh": 0x1000 + i, "e2e": 0x1000 + i})
        if kind == "threading" and i % 20 == 19:
            w.advance(1)
    w.advance(2)
    w.peer_close(c)


def sc_inbound_T(w, n, kind):
    c = w.handshake_in("peer1.example", auth=[4])
    for i in range(n):
        w.feed_msg(c, {"k": "REQ", "host": "peer1.example", "hbh": 0x1000 + i, "e2e": 0x77 + (i % 3), "T": i % 2 == 1})
    w.peer_close(c)


def sc_rejected(w, n, kind):
    c = w.handshake_in("peer1.example", auth=[4])
    variants = [{"bare": True}, {"app": 9999}, {"dest_realm": "elsewhere.example"}, {"code": 999, "bare": True},
                {"no_dest_realm": True}]
    for i in range(n):
        w.feed_msg(c, dict({"k": "REQ", "host": "peer1.example", "hbh": 0x1000 + i, "e2e": 0x1000 + i}, **variants[i % len(variants)]))
    w.peer_close(c)


def _ccr(i):
    from diameter.message.commands import CreditControlRequest
    msg = CreditControlRequest()
    msg.session_id, msg.origin_host, msg.origin_realm = f"n;{i}", W.NODE_HOST.encode(), W.NODE_REALM.encode()
    msg.destination_realm, msg.service_context_id = W.NODE_REALM.encode(), "x"
    msg.cc_request_type, msg.cc_request_number = 1, 0
    return msg


def sc_outbound(w, n, kind, answer=True):
    c = w.handshake_in("peer1.example", auth=[4])
    app = w.apps[0]
    for i in range(n):
        seen = len(c.refresh())
        call = w.app_call(lambda m=_ccr(i): app.send_request(m, timeout=2), name="sender")
        reqs = [f for f in c.refresh()[seen:] if f.is_request and f.code == 272]
        if answer and reqs:
            w.feed_msg(c, {"k": "ANS", "host": "peer1.example", "hbh": reqs[0].h["hbh"], "e2e": reqs[0].h["e2e"]})
        else:
            w.advance(3)            # the sender times out
            if reqs and i % 2 == 0:  # ... and a late answer arrives afterwards
                w.feed_msg(c, {"k": "ANS", "host": "peer1.example", "hbh": reqs[0].h["hbh"], "e2e": reqs[0].h["e2e"]})
    w.peer_close(c)


def sc_outbound_timeout(w, n, kind):
    sc_outbound(w, n, kind, answer=False)


def sc_dwr_from_peer(w, n, kind):
    c = w.handshake_in("peer1.example", auth=[4])
    for i in range(n):
        w.feed_msg(c, {"k": "DWR", "host": "peer1.example", "hbh": 0x1000 + i, "e2e": 0x1000 + i})
    w.peer_close(c)


def sc_dwr_from_node(w, n, kind):
    c = w.handshake_in("peer1.example", auth=[4])
    for i in range(n):
        seen = len(c.refresh())
        w.advance(4)                 # idle timeout 2 s + wakeup
        dwrs = [f for f in c.refresh()[seen:] if f.is_request and f.code == W.CMD_DW]
        for f in dwrs:
            w.feed_msg(c, {"k": "DWA", "host": "peer1.example", "hbh": f.h["hbh"], "e2e": f.h["e2e"]})
    w.peer_close(c)


def sc_conn_closed_by_peer(w, n, kind, how="close"):
    for i in range(n):
        c = w.handshake_in("peer1.example", auth=[4], hbh=0x100 + i)
        if c is None:
            break
        w.feed_msg(c, {"k": "REQ", "host": "peer1.example", "hbh": 0x1000 + i, "e2e": 0x1000 + i})
        if how == "reset":
            w.peer_reset(c)
        elif how == "dpr":
            w.feed_msg(c, {"k": "DPR", "host": "peer1.example", "hbh": 0x2000 + i, "e2e": 0x2000 + i})
            w.peer_close(c)
        else:
            w.peer_close(c)


def sc_lost_while_handling(w, n, kind):
    """the requester goes away while its request is still in the handler; the answer can then not be routed"""
    w.behaviour_fn = lambda rec: "slow"
    for i in range(n):
        c = w.handshake_in("peer1.example", auth=[4], hbh=0x100 + i)
        if c is None:
            break
        w.feed_msg(c, {"k": "REQ", "host": "peer1.example", "hbh": 0x1000 + i, "e2e": 0x1000 + i}, run=False)
        w.k.run()
        if i % 2:
            w.feed_msg(c, {"k": "DPR", "host": "peer1.example", "hbh": 0x2000 + i, "e2e": 0x2000 + i})
        w.peer_close(c)
        w.advance(4)
    w.behaviour_fn = None


def sc_conn_reset(w, n, kind):
    sc_conn_closed_by_peer(w, n, kind, "reset")


def sc_conn_dpr(w, n, kind):
    sc_conn_closed_by_peer(w, n, kind, "dpr")


def sc_unknown_peer(w, n, kind):
    for i in range(n):
        c = w.accept("10.9.9.9")
        w.feed_msg(c, {"k": "CER", "host": "stranger.example", "auth": [4], "hbh": 0x3000 + i, "e2e": 0x3000 + i})


def sc_accept_no_cer(w, n, kind):
    for i in range(n):
        w.accept("10.9.9.8")
        if i % 10 == 9:
            w.advance(5)             # CER timeout closes them
    w.advance(6)


def sc_garbage_then_closed(w, n, kind):
    """connections on which bytes arrive that are no diameter message (length field 0, below the header size, or larger
    than what follows), before or after the handshake, and that end - closed by the node or by the peer"""
    junk = [bytes(20), b"\x01\x00\x00\x07" + bytes(16), b"\x01\x00\x00\x13" + bytes(20), bytes(41), b"\x01\x00\x00\x18" + b"\xff" * 20]
    for i in range(n):
        for established in (True, False):
            c = w.handshake_in("peer1.example", auth=[4], hbh=0x3100 + i) if established else w.accept("10.1.1.1")
            if c is None:
                continue
            w.feed(c, junk[i % len(junk)])
            if not c.node_closed:
                w.peer_close(c)
    w.advance(2)


def sc_nocommon(w, n, kind):
    for i in range(n):
        c = w.accept("10.1.1.1")
        w.feed_msg(c, {"k": "CER", "host": "peer1.example", "auth": [77], "hbh": 0x3000 + i, "e2e": 0x3000 + i})
        w.peer_close(c)


def _dial_loop(w, n, handler):
    """peer2 is persistent with reconnect_wait 1: each loss is followed by a redial."""
    done = 0
    guard = 0
    while done < n and guard < n * 12 + 20:
        guard += 1
        cands = [c for c in w.conns if c.remote.direction == "out" and not c.node_closed and not getattr(c, "_used", False)]
        if not cands:
            w.advance(1)
            continue
        c = cands[-1]
        c._used = True
        handler(c, done)
        done += 1
    return done


def sc_dial_sync_refused(w, n, kind):
    w.dial_plan["10.1.1.2"] = [("sync-error", 111)] * (n + 5)
    w.advance(n * 2 + 4)


def sc_dial_async_fail(w, n, kind):
    _dial_loop(w, n, lambda c, i: w.connect_result(c, False))


def sc_dial_cea_rejected(w, n, kind):
    def h(c, i):
        w.connect_result(c, True)
        w.answer_cer(c, 3010, auth=(4,), host="peer2.example")
    _dial_loop(w, n, h)


def sc_dial_cea_timeout(w, n, kind):
    def h(c, i):
        w.connect_result(c, True)
        w.advance(5)
    _dial_loop(w, n, h)


def sc_dial_established_closed(w, n, kind):
    def h(c, i):
        w.connect_result(c, True)
        w.answer_cer(c, 2001, auth=(4,), host="peer2.example")
        w.peer_close(c)
    _dial_loop(w, n, h)


def sc_newcomers_while_stopping(w, n, kind):
    c = w.handshake_in("peer1.example", auth=[4])
    w.stop(force=False, wait_timeout=n + 20)
    for i in range(n):
        nc = w.accept("10.1.1.2")
        if nc is not None and i % 2:
            w.feed_msg(nc, {"k": "CER", "host": "peer2.example", "auth": [4], "hbh": 0x3000 + i, "e2e": 0x3000 + i})
        if i % 10 == 9:
            w.advance(1)
    w.peer_close(c)
    w.advance(8)


def sc_burst_then_node_close(w, n, kind):
    """More wake-ups than one read of the interrupt pipe holds are pending (a burst of outgoing messages on one
    connection while the I/O thread does not run), then the node itself closes another connection."""
    from diameter.message.commands import DeviceWatchdogAnswer
    a = w.handshake_in("peer1.example", auth=[4], hbh=0x100)
    nca = w.node_conn_for(a)
    for i in range(n):
        b = w.handshake_in("peer2.example", auth=[4], ip="10.1.1.2", hbh=0x200 + i)
        if b is None or nca is None:
            break
        ncb = w.node_conn_for(b)

        def burst():
            size = 0
            for j in range(200):
                m = DeviceWatchdogAnswer()
                m.header.hop_by_hop_identifier = m.header.end_to_end_identifier = 0x9000 + j
                m.result_code = 2001
                m.origin_host = W.NODE_HOST.encode()
                m.origin_realm = W.NODE_REALM.encode()
                size += len(m.as_bytes())
                w.node.send_message(nca, m)
            w.k.block(lambda: len(nca.write_buffer) >= size or nca.state == 0x1c, timeout=5)   # the writer has queued them all
            if ncb is not None:
                ncb.close()

        # the harness owns the schedule here: the burst and the connection's writer run before the I/O thread does
        def prefer(cands):
            for key in ("burst", "work_write_queue"):
                for t in cands:
                    if key in t.name:
                        return t
            return cands[0]
        old = w.k.chooser
        w.k.chooser = prefer
        try:
            w.app_call(burst, name="burst")
            w.run()
        finally:
            w.k.chooser = old
        w.advance(1)
    w.peer_close(a)


SCENARIOS = {
    "inbound-request-answer": (sc_inbound, {}),
    "inbound-T-flag-repeats": (sc_inbound_T, {}),
    "inbound-answer-experimental-result": (sc_inbound_experimental, {}),
    "inbound-many-origin-hosts": (sc_inbound_many_origins, {}),
    "inbound-connection-stays-up": (sc_inbound_open, {}),
    "inbound-failing-handler-connection-stays-up": (sc_inbound_open_raise, {}),
    "inbound-direct-send-message-connection-stays-up": (sc_inbound_open_direct, {}),
    "inbound-rejected-connection-stays-up": (sc_inbound_open_rejected, {}),
    "rejected-requests": (sc_rejected, {}),
    "outbound-request-answer": (sc_outbound, {}),
    "outbound-request-timeout": (sc_outbound_timeout, {}),
    "dwr-from-peer": (sc_dwr_from_peer, {}),
    "dwr-from-node": (sc_dwr_from_node, {"idle": 2}),
    "conn-closed-by-peer": (sc_conn_closed_by_peer, {}),
    "conn-reset": (sc_conn_reset, {}),
    "requester-lost-while-handling": (sc_lost_while_handling, {}),
    "conn-dpr": (sc_conn_dpr, {}),
    "unknown-peer": (sc_unknown_peer, {}),
    "accept-no-cer": (sc_accept_no_cer, {}),
    "cer-no-common-app": (sc_nocommon, {}),
    "garbage-then-closed": (sc_garbage_then_closed, {}),
    "dial-refused-sync": (sc_dial_sync_refused, {"dial": True}),
    "dial-failed-async": (sc_dial_async_fail, {"dial": True}),
    "dial-cea-rejected": (sc_dial_cea_rejected, {"dial": True}),
    "dial-cea-timeout": (sc_dial_cea_timeout, {"dial": True}),
    "dial-established-closed": (sc_dial_established_closed, {"dial": True}),
    "newcomers-while-stopping": (sc_newcomers_while_stopping, {}),
    "burst-then-node-close": (sc_burst_then_node_close, {}),
}
FAILING = {"garbage-then-closed", "rejected-requests", "outbound-request-timeout", "conn-reset", "unknown-peer", "accept-no-cer",
           "cer-no-common-app", "dial-refused-sync", "dial-failed-async", "dial-cea-rejected", "dial-cea-timeout",
           "newcomers-while-stopping", "inbound-T-flag-repeats"}


def run_scenario(names, n, kind, seed=0):
    kw = {}
    for nm in names:
        kw.update(SCENARIOS[nm][1])
    cfg = base_cfg(kind, **kw)
    cfg["sched_seed"] = seed
    w = W.NodeWorld(cfg)
    try:
        w.start()
        for nm in names:
            SCENARIOS[nm][0](w, n, kind)
        m_mid = None
        if len(names) == 1 and names[0].endswith("connection-stays-up") and w.stop_box is None:
            # every transaction has completed, the connection is still up
            w.advance(3)
            m_mid = measure(w)
        # end every remaining connection, then let the workers' poll period pass
        if w.stop_box is None:
            for c in list(w.conns):
                if not c.node_closed and not c.peer_closed:
                    if c.remote.sock.state == "connecting":
                        w.connect_result(c, False)
                    else:
                        w.peer_close(c)
            # stop redialling: the measurement needs "every connection has ended"
            for p in w.peers:
                p.persistent = False
            for c in list(w.conns):
                if not c.node_closed and not c.peer_closed:
                    if c.remote.sock.state == "connecting":
                        w.connect_result(c, False)
                    else:
                        w.peer_close(c)
        w.advance(7)
        m = measure(w)
        died = W.monitor_threads(w)
        return m, died, m_mid
    finally:
        w.close()


def compare(names, n, kind, rec: Recorder, seed=0):
    (m1, d1, mid1) = run_scenario(names, n, kind, seed)
    (m2, d2, mid2) = run_scenario(names, 10 * n, kind, seed)
    case = {"scenarios": list(names), "N": n, "app_kind": kind}
    label = "+".join(names)
    # (N >= 10: tables that are created on first use - one per connected host - exist in both runs)
    if mid1 is not None and mid2 is not None and n >= 10:
        for path in sorted(set(mid1) | set(mid2)):
            a = mid1.get(path, ("free", 0, None))
            b = mid2.get(path, ("free", 0, None))
            if b[0] == "bounded" or a[0] == "bounded":
                continue
            if a[1] != b[1]:
                rec.violation(f"C19/grows-while-connected/{path}/{names[0] if len(names) == 1 else 'mixed'}", case,
                              f"{label}: with the connection still up and every request answered, {path} has {a[1]} entries "
                              f"after N={n} and {b[1]} after N={10 * n}")
        rec.cls("measured-while-connected")
    for path in sorted(set(m1) | set(m2)):
        a = m1.get(path, ("free", 0, None))
        b = m2.get(path, ("free", 0, None))
        if b[0] == "bounded" or a[0] == "bounded":
            bound = b[2] if b[2] is not None else a[2]
            if bound is not None and max(a[1], b[1]) > bound:
                rec.violation(f"C19/bound-exceeded/{path}", case, f"{label}: {path} holds {max(a[1], b[1])} items, bound {bound}")
            continue
        if a[1] != b[1]:
            rec.violation(f"C19/grows/{path}/{names[0] if len(names) == 1 else 'mixed'}", case,
                          f"{label}: {path} has {a[1]} entries after N={n} and {b[1]} after N={10 * n}")
    if d1 or d2:
        rec.cls("cross:thread-died")
    for sig_, det_ in list(d1) + list(d2):
        if "SpinDetected" in sig_:
            # a worker that loops without ever blocking is a worker that never ends: the kernel's progress guard stops it
            # here, on a real interpreter it outlives its connection
            rec.violation(f"C19/grows/<live-threads>/spinning-worker/{names[0] if len(names) == 1 else 'mixed'}", case,
                          f"{label}: {det_[:300]}")
    nt = n >= 10 and any(nm in FAILING for nm in names)
    rec.case(fp(tuple(names), n, kind) if nt else None,
             [f"N:{n}", f"app:{kind}"] + [f"scenario:{nm}" for nm in names],
             sample=lambda: dict(case, containers=len(m2), sample_sizes={k: v[1] for k, v in list(m2.items())[:12]}))


def install_points_eof():
    from dv import sched, simkernel as sk
    N = sk.load_node()["node"].Node
    sched.clear()
    # the reader thread noting and handing on the request, the I/O thread reading the end of the stream and removing the
    # connection with its notes
    return sched.install({N._receive_message: r"_origin_waiting_answer|message_id|_receive_app_request|is_request",
                          N._receive_app_request: r"_peer_waiting_answer|waiting|receive_request",
                          N.remove_peer_connection: r"_peer_waiting_answer|_origin_waiting_answer|del self",
                          N._handle_connections: r"\.recv\(|add_in_bytes|close_connection_socket\("})


def request_vs_eof_retained(decisions):
    """A request and the end of its connection reach the node in the same instant (the reader thread handles the request
    while the I/O thread removes the connection).  Whatever the order: once the connection has ended, nothing about its
    requests is retained.  One schedule."""
    from dv import sched
    w = W.NodeWorld({"peers": [{"name": "peer1.example", "ip": ["10.1.1.1"]}],
                     "apps": [{"app_id": 4, "auth": True, "peers": [0], "kind": "basic", "handler": "hold"}],
                     "node_timers": {"idle": 5000, "dwa": 50, "cer": 50, "cea": 50, "wakeup": 3}})
    try:
        w.start()
        c = w.handshake_in("peer1.example", auth=[4], ip="10.1.1.1", hbh=0x100)
        ex = sched.Explorer(decisions)
        sched.attach(w.k, ex)
        w.feed_msg(c, {"k": "REQ", "host": "peer1.example", "hbh": 0xa1, "e2e": 0x5101}, run=False)
        c.peer_closed = True
        c.remote.close()
        ex.armed = True
        w.k.run()
        ex.armed = False
        w.advance(7)
        problems = []
        node = w.node
        if node.connections:
            problems.append(("connection-still-tabled", f"{list(node.connections)}"))
        else:
            n_origin = len(node._origin_waiting_answer)
            n_peer = sum(len(v) for v in node._peer_waiting_answer.values())
            if n_origin:
                problems.append(("node._origin_waiting_answer", f"{n_origin} entr(y/ies) kept after the requester's connection ended: "
                                 f"{list(node._origin_waiting_answer)[:3]}"))
            if n_peer:
                problems.append(("node._peer_waiting_answer", f"{n_peer} entr(y/ies) kept after the requester's connection ended"))
        delivered = any(r["e2e"] == 0x5101 for r in w.requests_seen)
        return ex.trace, problems, delivered
    finally:
        w.close()


def schedule_part(rec, shard, nshards, thorough):
    from dv import sched
    from checks import c09
    info = install_points_eof()
    if shard == 0:
        rec.extra["preemption_functions_request_vs_eof"] = info
    holder = {}

    def run_one(dec):
        tr, problems, delivered = request_vs_eof_retained(dec)
        holder["last"] = (problems, delivered)
        return tr
    n_ = 0
    for dec, trace in sched.enumerate_schedules(run_one, 3 if thorough else 2, shard, nshards):
        case = {"request_vs_eof": True, "schedule": {str(i): c for i, c in sorted(dec.items())}}
        for k_, detail in holder["last"][0]:
            rec.violation(f"C19/request-vs-eof/retained/{k_}", case, detail)
        n_ += 1
        rec.case(fp("sched-eof", tuple(sorted(dec.items()))) if dec else None,
                 ["schedule-exploration", "request-vs-eof:" + ("delivered" if holder["last"][1] else "not-delivered")],
                 sample=lambda: dict(case, choice_points=len(trace)))
    rec.extra["request_vs_eof_schedules"] = rec.extra.get("request_vs_eof_schedules", 0) + n_
    sched.clear()


def shard_main(shard, nshards, tier, scale):
    rec = Recorder(PID)
    thorough = tier == "thorough"
    schedule_part(rec, shard, nshards, thorough)
    Ns = [1, 10, 100] if thorough else [1, 10]
    jobs = []
    for nm in SCENARIOS:
        for kind in ("basic", "threading"):
            if kind == "threading" and nm not in ("inbound-request-answer", "inbound-answer-experimental-result", "inbound-T-flag-repeats", "rejected-requests",
                                                  "conn-closed-by-peer", "conn-reset", "newcomers-while-stopping"):
                continue
            for n in Ns:
                jobs.append(((nm,), n, kind))
    if shard == 0:
        rec.extra["scenario_jobs"] = len(jobs)
        rec.extra["scenarios"] = sorted(SCENARIOS)
    for (names, n, kind) in jobs[shard::nshards]:
        compare(names, n, kind, rec)
    # mixes
    m = int((60 if thorough else 16) * scale) // 1 or 1
    names = sorted(SCENARIOS)
    mix = st.tuples(st.lists(st.sampled_from([x for x in names if x not in ("newcomers-while-stopping", "inbound-many-origin-hosts")]), min_size=2, max_size=4, unique=True),
                    st.sampled_from([1, 3, 10]), st.sampled_from(["basic", "threading"]), st.integers(0, 5))

    def body(t):
        nms, n, kind, seed = t
        compare(tuple(nms), n, kind, rec, seed)
    hyp.run_given(mix, body, m, derive_seed(PID, "mix", shard), rec=rec)
    return rec.dump()


def run(tier, scale=1.0):
    t0 = time.time()
    rec = Recorder(PID)
    for d in hyp.pool_run(shard_main, (tier, scale)):
        rec.merge(d)
    required = {f"scenario:{s}": 1 for s in SCENARIOS} | {"schedule-exploration": 1, "measured-while-connected": 1, "N:10": 1, "app:threading": 1}
    return finish(rec, tier=tier, level="exploration", rule=RULE, assumptions=ASSUME, t0=t0,
                  required_classes=required)


def replay(doc):
    rec = Recorder(PID)
    case = doc["case"]
    if case.get("request_vs_eof"):
        from dv import sched
        from checks import c09
        install_points_eof()
        _, problems, _ = request_vs_eof_retained({int(i): c for i, c in case["schedule"].items()})
        sigs = [f"C19/request-vs-eof/retained/{k}" for k, _ in problems]
        if doc["signature"] in sigs:
            print(f"  replayed: {problems[0][1][:300]}")
            print(f"VIOLATION property={PID} replay=(replay)")
            return 1
        print(f"[{PID}] replay: signature does not reproduce (got {sigs})")
        return 0
    compare(tuple(case["scenarios"]), case["N"], case["app_kind"], rec)
    if doc["signature"] in rec.violations:
        print(f"  replayed: {rec.violations[doc['signature']]['detail'][:300]}")
        print(f"VIOLATION property={PID} replay=(replay)")
        return 1
    print(f"[{PID}] replay: signature does not reproduce (got {sorted(rec.violations)})")
    return 0
