"""C09 -- application answers go only to the requesting connection, at most once.

Histories of 1..3 peers sending 1..4 concurrent requests (equal hop-by-hop ids
on different connections included); the application (basic: answers held and
submitted by the harness in any order; threading: handlers of different
durations) answers while connection loss, reset, DPR or reconnection of the
requester is injected at every point between arrival and submission; double
submission.  Oracle: the answer's bytes appear once, on the requester's socket
only; otherwise NotRoutable and nothing is written anywhere.
"""
from __future__ import annotations

import time

from hypothesis import strategies as st

from dv import hyp, world as W
from dv.common import derive_seed
from dv.evidence import Recorder, finish
from checks.nodecommon import Result, record, generic_replay

PID = "C09"
LEVEL = "fault_enumeration"
RULE = ("histories of 1..16 events {request on connection i with hop-by-hop from a pool of 3 (unique per "
        "connection among in-flight), submit the answer of the k-th held request, submit again, fault on "
        "connection i in {EOF, reset, DPR, DPR+close, close+reconnect}, advance} on 1..3 peers, basic "
        "(held answers) and threading (slow handlers) applications, randomised scheduling. Non-trivial: a "
        "fault or a second request lies between a request's arrival and its answer's submission, or two "
        "requests share a hop-by-hop id; distinct by script.")
ASSUME = ["hop-by-hop ids are unique per connection among requests in flight; equal ids on different connections are allowed (RFC 6733: hop-by-hop ids are local to a connection)",
          "each peer has at most one connection at a time (a second simultaneous connection of one peer is C13's subject)",
          "an answer frame is attributed to a request by (command, hop-by-hop, end-to-end) on the socket transcript"]


def world_cfg(case):
    peers = [{"name": f"peer{i + 1}.example", "ip": [f"10.1.1.{i + 1}"]} for i in range(3)]
    if case.get("out0"):
        # peer1 is dialled by the node (persistent); it may spell its own name in another case
        peers[0].update(persistent=True, reconnect_wait=1)
    kind = case.get("app_kind", "basic")
    app = {"app_id": 4, "auth": True, "peers": [0, 1, 2], "kind": kind,
           "handler": "hold" if kind == "basic" else "slow", "max_threads": 0}
    return {"peers": peers, "apps": [app], "sched_seed": case.get("seed", 0), "yield_all": case.get("yield_all", False),
            "policy": "random" if case.get("seed", 0) % 2 else "fifo",
            "default_dial": "ok",
            "node_timers": {"idle": case.get("idle", 5000), "dwa": 50, "cer": 50, "cea": 50, "wakeup": 1 if case.get("out0") else 3}}


def evaluate(case) -> Result:
    res = Result()
    w = W.NodeWorld(world_cfg(case))
    try:
        pm = w.mods["peer"]
        NotRoutable = w.mods["node"].NotRoutable
        w.start()
        npeers = case.get("npeers", 2)
        conns = {}                  # peer index -> current Conn
        gen = {}                    # peer index -> connection generation
        names = {i: f"peer{i + 1}.example" for i in range(3)}
        if case.get("out0"):
            names[0] = case.get("name0", "Peer1.Example")      # case-insensitively the configured identity

        def establish(i):
            if i == 0 and case.get("out0"):
                for _ in range(4):
                    cands = [c for c in w.conns if c.remote.direction == "out" and not c.node_closed and not c.peer_closed
                             and c.host is None]
                    if cands:
                        c = cands[-1]
                        w.answer_cer(c, 2001, auth=(4,), host=names[0])
                        return c
                    w.advance(1)
                return None
            return w.handshake_in(names[i], auth=[4], ip=f"10.1.1.{i + 1}", hbh=0x100 + i + 8 * len(w.conns))
        for i in range(npeers):
            conns[i] = establish(i)
            gen[i] = 0
        raise_for = set()
        if not case.get("app_kind") == "threading":
            block_for = set()

            def beh_basic(rec_):
                if (rec_["hbh"], rec_["e2e"]) in block_for:
                    return "block-then-hold"
                return "raise" if (rec_["hbh"], rec_["e2e"]) in raise_for else "hold"
            w.behaviour_fn = beh_basic
        reqs = []                   # dicts: peer, gen, conn, hbh, e2e, rec (requests_seen entry), submitted, fault_between
        e2e = [0x5000]
        slow_plan = case.get("slow", [3, 1, 2, 1])
        slow_i = [0]
        threading_app = case.get("app_kind") == "threading"
        if threading_app:
            def beh(rec):
                s = slow_plan[slow_i[0] % len(slow_plan)]
                slow_i[0] += 1
                w.apps[0]._verif_cfg["slow_s"] = s
                return "slow"
            w.behaviour_fn = beh
        nontrivial = False

        def frames_for(r):
            """answer frames matching request r on every connection ever used"""
            out = []
            for c in w.conns:
                for f in c.refresh():
                    if (not f.is_request) and f.code == 272 and f.h["hbh"] == r["hbh"] and f.h["e2e"] == r["e2e"]:
                        out.append((c.idx, f))
            return out

        def conn_live_ready(r):
            c = r["conn"]
            if c.node_closed or c.peer_closed:
                return False
            if c in dpr_conns:
                return False        # a DPR was received on it: not ready any more, whatever arrives afterwards
            nc = w.node_conn_for(c)
            return nc is not None and nc.state in pm.PEER_READY_STATES

        dpr_conns = []

        def judge_submission(r, call, first: bool, before):
            box = call["box"]
            after = frames_for(r)
            new = after[len(before):]
            desc = (f"request hbh={r['hbh']:#x} e2e={r['e2e']:#x} from peer{r['peer'] + 1} (conn {r['conn'].idx}), "
                    f"{'first' if first else 'second'} submission")
            live = r["live_at_submit"]
            if not first:
                if new:
                    res.v("C09/second-submission-transmitted", f"{desc}: written again on conn {[i for i, _ in new]}")
                elif box["exc"] is None:
                    res.v("C09/second-submission-no-error", f"{desc}: no error raised")
                return
            wrong = [i for i, _ in new if i != r["conn"].idx]
            if wrong:
                res.v("C09/answer-on-other-connection", f"{desc}: answer written to conn {wrong} "
                      f"(requester conn {r['conn'].idx}, live={live})")
            mine = [f for i, f in new if i == r["conn"].idx]
            if live:
                if not mine and not wrong:
                    res.v("C09/answer-not-transmitted", f"{desc}: requester connection is ready but {box['exc']!r} and nothing written")
                if len(mine) > 1:
                    res.v("C09/answer-twice", desc)
            else:
                if mine:
                    res.v("C09/answer-on-dead-connection", f"{desc}: written although the connection is closed / not ready")
                if not new and not isinstance(box["exc"], NotRoutable):
                    res.v("C09/no-not-routable", f"{desc}: requester connection gone/not ready, expected NotRoutable, got {box['exc']!r}")

        for ev in case["events"]:
            kind = ev[0]
            if kind in ("REQ", "REQ_RAISE"):
                _, pi, hb = ev
                pi = pi % npeers
                c = conns[pi]
                if c is None or c.node_closed or c.peer_closed:
                    continue
                hbh = 0xa0 + hb
                inflight = [r for r in reqs if r["conn"] is c and not r["submitted"]]
                if any(r["hbh"] == hbh for r in inflight):
                    continue
                nc = w.node_conn_for(c)
                if nc is None or nc.state not in pm.PEER_READY_STATES:
                    continue
                e2e[0] += 1
                n_seen = len(w.requests_seen)
                if kind == "REQ_RAISE" and not threading_app:
                    raise_for.add((hbh, e2e[0]))
                w.feed_msg(c, {"k": "REQ", "host": names[pi], "hbh": hbh, "e2e": e2e[0]})
                if threading_app:
                    w.run()
                new = [r for r in w.requests_seen[n_seen:] if r["hbh"] == hbh and r["e2e"] == e2e[0]]
                r = {"peer": pi, "gen": gen[pi], "conn": c, "hbh": hbh, "e2e": e2e[0], "rec": new[0] if new else None,
                     "submitted": 0, "t": w.k.now, "auto": threading_app}
                if (hbh, e2e[0]) in raise_for:
                    # the handler kept the request and raised: the node has answered 5012 itself - that was the
                    # request's answer; whatever the application submits later is a second answer
                    own = [f for i_, f in frames_for(r) if i_ == c.idx]
                    if len(own) != 1 or own[0].result_code() != 5012:
                        res.v("C09/handler-raised/answer", f"handler raised for hbh={hbh:#x}: node transmitted {[f.brief() for f in own]}")
                    r["submitted"] = 1
                    r["live_at_submit"] = True
                    res.classes.append("handler-raised-then-submit")
                reqs.append(r)
                if any(o["hbh"] == hbh and o is not r and not o["submitted"] for o in reqs):
                    nontrivial = True
                if len([o for o in reqs if not o["submitted"]]) > 1:
                    nontrivial = True
            elif kind == "REQ2_LOST_WHILE_HANDLING" and not threading_app:
                # two requests arrive in one read; while the handler of the first is still running (in the reader
                # thread) the connection is lost and removed; the second one is dispatched only afterwards
                pi = ev[1] % npeers
                c = conns[pi]
                if c is None or c.node_closed or c.peer_closed:
                    continue
                nc = w.node_conn_for(c)
                if nc is None or nc.state not in pm.PEER_READY_STATES or any(r["conn"] is c and not r["submitted"] for r in reqs):
                    continue
                ids = []
                data = b""
                for hb in (0, 1):
                    e2e[0] += 1
                    ids.append((0xa0 + hb, e2e[0]))
                    data += W.build_msg({"k": "REQ", "host": names[pi], "hbh": 0xa0 + hb, "e2e": e2e[0]})
                block_for.add(ids[0])
                w.apps[0]._verif_cfg["slow_s"] = 2
                n_seen = len(w.requests_seen)
                w.feed(c, data)
                w.peer_close(c)
                w.advance(3)
                for (hb_, e_) in ids:
                    new = [r for r in w.requests_seen[n_seen:] if r["hbh"] == hb_ and r["e2e"] == e_]
                    reqs.append({"peer": pi, "gen": gen[pi], "conn": c, "hbh": hb_, "e2e": e_, "rec": new[0] if new else None,
                                 "submitted": 0, "t": w.k.now, "auto": False})
                gen[pi] += 1
                conns[pi] = establish(pi)
                res.classes.append("lost-while-handling")
                nontrivial = True
            elif kind == "SUBMIT_DIRECT" and not threading_app:
                pool = [r for r in reqs if r["rec"] is not None and r["submitted"] == 0 and conn_live_ready(r)]
                if not pool:
                    continue
                r = pool[ev[1] % len(pool)]
                before = frames_for(r)
                nc_ = w.node_conn_for(r["conn"])
                app_ = w.apps[0]

                def direct(r=r, nc_=nc_):
                    ans = app_.generate_answer(r["rec"]["msg"], result_code=2001)
                    w._fill_answer(ans, r["rec"]["msg"])
                    w.node.send_message(nc_, ans)      # documented: "manually send a message towards a peer"
                w.app_call(direct, name="direct-answer")
                r["submitted"] += 1
                r["live_at_submit"] = True
                got = frames_for(r)[len(before):]
                if [i_ for i_, _ in got] != [r["conn"].idx]:
                    res.v("C09/direct-answer/not-transmitted-once", f"Node.send_message answer for hbh={r['hbh']:#x} written to {[i_ for i_, _ in got]}")
                res.classes.append("direct-send-message")
            elif kind in ("SUBMIT", "SUBMIT_AGAIN") and not threading_app:
                pool = [r for r in reqs if r["rec"] is not None and (r["submitted"] == 0) == (kind == "SUBMIT")]
                if not pool:
                    continue
                r = pool[ev[1] % len(pool)]
                before = frames_for(r)
                if kind == "SUBMIT":
                    r["live_at_submit"] = conn_live_ready(r)
                call = w.submit_answer(r["rec"])
                r["submitted"] += 1
                judge_submission(r, call, kind == "SUBMIT", before)
            elif kind == "FAULT":
                _, pi, fk = ev
                pi = pi % npeers
                c = conns[pi]
                if c is None or c.node_closed or c.peer_closed:
                    continue
                if any(r["conn"] is c and not r["submitted"] for r in reqs):
                    nontrivial = True
                host = names[pi]
                if fk == "eof":
                    w.peer_close(c)
                elif fk == "reset":
                    w.peer_reset(c)
                elif fk == "watchdog":
                    # let the idle timer run out: the node's own DWR is outstanding on this connection
                    if case.get("idle", 5000) > 60:
                        continue
                    n0 = len([f for f in c.refresh() if f.is_request and f.code == 280])
                    for _ in range(case["idle"] + 6):
                        w.advance(1)
                        if len([f for f in c.refresh() if f.is_request and f.code == 280]) > n0 or c.node_closed:
                            break
                    res.classes.append("watchdog-outstanding")
                elif fk == "dwa":
                    dwrs = [f for f in c.refresh() if f.is_request and f.code == 280]
                    ids = {"hbh": dwrs[-1].h["hbh"], "e2e": dwrs[-1].h["e2e"]} if dwrs else {"hbh": 0xd70, "e2e": 0xd70}
                    w.feed_msg(c, dict(ids, k="DWA", host=host))
                    if c in dpr_conns:
                        res.classes.append("dwa-after-dpr")
                elif fk in ("dpr", "dpr-close"):
                    nc_ = w.node_conn_for(c)
                    if nc_ is not None and nc_.state in pm.PEER_READY_STATES:
                        dpr_conns.append(c)
                    w.feed_msg(c, {"k": "DPR", "host": host, "hbh": 0xd00 + len(w.conns), "e2e": 0xd00 + len(w.conns)})
                    if fk == "dpr-close":
                        w.peer_close(c)
                elif fk == "dpr-second-connection":
                    # the requester says DPR, gets its DPA, leaves that connection open and completes the handshake
                    # of a second one: answers to requests of the first connection may not be sent on the second.
                    # (No further traffic of this peer: a peer with two open connections is C12/C13's known finding.)
                    nc_ = w.node_conn_for(c)
                    if nc_ is not None and nc_.state in pm.PEER_READY_STATES:
                        dpr_conns.append(c)
                    w.feed_msg(c, {"k": "DPR", "host": host, "hbh": 0xd00 + len(w.conns), "e2e": 0xd00 + len(w.conns)})
                    w.handshake_in(names[pi], auth=[4], ip=f"10.1.1.{pi + 1}", hbh=0x100 + pi + 8 * len(w.conns))
                    conns[pi] = None
                    res.classes.append("fault:dpr-second-connection")
                elif fk == "reconnect":
                    w.peer_close(c)
                    gen[pi] += 1
                    conns[pi] = establish(pi)
                elif fk == "reconnect-overlap":
                    # the peer comes back (new inbound connection, CER/CEA done) before the node has noticed
                    # that the old connection is dead; the old one is lost right afterwards
                    newc = w.handshake_in(names[pi], auth=[4], ip=f"10.1.1.{pi + 1}", hbh=0x100 + pi + 8 * len(w.conns))
                    w.peer_close(c)
                    gen[pi] += 1
                    conns[pi] = newc
                    res.classes.append("fault:reconnect-overlap")
            elif kind == "ADV":
                w.advance(ev[1])
            # threading application: answers are submitted by worker threads on their own
            if threading_app:
                for r in reqs:
                    if r["rec"] is None or r.get("judged"):
                        continue
        if threading_app:
            # let every slow handler finish, then judge every request from the transcript
            # (the requester state at submission time is the state when the handler finished)
            t_end = max([r["t"] for r in reqs] + [w.k.now]) + 8
            # step second by second, recording for each request whether its connection was live at completion
            while w.k.now < t_end:
                for r in reqs:
                    if "live_at_done" not in r and r["rec"] is not None:
                        dur = r["rec"].get("slow_s")
                w.advance(1)
            for r in reqs:
                if r["rec"] is None:
                    continue
                fr = frames_for(r)
                wrong = [i for i, _ in fr if i != r["conn"].idx]
                if wrong:
                    res.v("C09/answer-on-other-connection", f"threading app: answer for hbh={r['hbh']:#x} e2e={r['e2e']:#x} of conn {r['conn'].idx} written to conn {wrong}")
                if len([1 for i, _ in fr if i == r["conn"].idx]) > 1:
                    res.v("C09/answer-twice", f"threading app: hbh={r['hbh']:#x} e2e={r['e2e']:#x}")
                closed_at = r["conn"].remote.closed_at
                for i, f in fr:
                    if i == r["conn"].idx and closed_at is not None and f.t > closed_at:
                        res.v("C09/answer-on-dead-connection", "threading app: answer written after the socket was closed")
        cross = W.monitor_threads(w)
        if cross:
            res.classes.append("cross:thread-died")
        res.nontrivial = nontrivial
        res.classes += [f"npeers:{npeers}", f"app:{case.get('app_kind', 'basic')}", f"reqs:{min(len(reqs), 4)}",
                        f"out0:{bool(case.get('out0'))}"]
        for ev in case["events"]:
            if ev[0] == "FAULT":
                res.classes.append(f"fault:{ev[2]}")
            if ev[0] == "SUBMIT_AGAIN":
                res.classes.append("double-submission")
        if any(a["hbh"] == b["hbh"] and a["conn"] is not b["conn"] for a in reqs for b in reqs):
            res.classes.append("equal-hbh-two-conns")
        res.sample = {"case": case}
        return res
    finally:
        w.close()


def install_points():
    from dv import sched, simkernel as sk
    mods = sk.load_node()
    A, N, P = mods["application"].Application, mods["node"].Node, mods["peer"].PeerConnection
    return sched.install({A.send_answer: None, N.route_answer: None, N.send_message: None,
                          N._record_answer: None, P.add_out_msg: None})


def concurrent_double(decisions, nthreads=2):
    """Two (three) threads submit an answer for the same request at the same
    time; one schedule of the exploration."""
    from dv import sched
    w = W.NodeWorld(world_cfg({"app_kind": "basic"}))
    try:
        w.start()
        c = w.handshake_in("peer1.example", auth=[4], ip="10.1.1.1", hbh=0x100)
        w.feed_msg(c, {"k": "REQ", "host": "peer1.example", "hbh": 0xa1, "e2e": 0x5101})
        rec_ = [r for r in w.requests_seen if r["hbh"] == 0xa1][0]
        app = w.apps[0]
        answers = []
        for i in range(nthreads):
            a = app.generate_answer(rec_["msg"], result_code=2001 + i * 3011)
            w._fill_answer(a, rec_["msg"])
            answers.append(a)
        ex = sched.Explorer(decisions)
        sched.attach(w.k, ex)
        boxes = [w.k.spawn(lambda a=a: app.send_answer(a), name=f"submitter{i}") for i, a in enumerate(answers)]
        ex.armed = True
        w.k.run()
        ex.armed = False
        w.k.run()
        frames = [f for f in c.refresh() if not f.is_request and f.code == 272 and f.h["hbh"] == 0xa1]
        ok_calls = [b for b in boxes if b["done"] and b["exc"] is None]
        errs = [repr(b["exc"]) for b in boxes if b["exc"] is not None]
        died = W.monitor_threads(w)
        return ex.trace, frames, ok_calls, errs, died
    finally:
        w.close()


def equal_id_pair_two_connections(rec):
    """Two peers have requests with the same hop-by-hop AND end-to-end identifier pending (both are unique per
    connection / per origin only); the application answers the one that arrived later."""
    from dv.common import fp
    w = W.NodeWorld({"peers": [{"name": f"peer{i + 1}.example", "ip": [f"10.1.1.{i + 1}"]} for i in range(2)],
                     "apps": [{"app_id": 4, "auth": True, "peers": [0, 1], "kind": "basic", "handler": "hold"}],
                     "node_timers": {"idle": 5000, "dwa": 50, "cer": 50, "cea": 50, "wakeup": 3}})
    case = {"equal_id_pair": [0xa0, 0x5001], "answered": "the request of peer2 (arrived second)"}
    try:
        w.start()
        cs = [w.handshake_in(f"peer{i + 1}.example", auth=[4], ip=f"10.1.1.{i + 1}", hbh=0x100 + i) for i in range(2)]
        for i, c in enumerate(cs):
            w.feed_msg(c, {"k": "REQ", "host": f"peer{i + 1}.example", "hbh": 0xa0, "e2e": 0x5001})
        rec2 = [r for r in w.requests_seen if r["origin"] == b"peer2.example"][0]
        w.submit_answer(rec2)
        on1 = [f for f in cs[0].refresh() if not f.is_request and f.code == 272]
        on2 = [f for f in cs[1].refresh() if not f.is_request and f.code == 272]
        if on1 or len(on2) != 1:
            rec.violation("C09/equal-id-pair/answer-on-other-connection", case,
                          f"answer to peer2's request: {len(on1)} frame(s) on peer1's connection, {len(on2)} on peer2's")
        rec.case(fp("equal-pair"), ["equal-id-pair-two-connections"], sample=lambda: case)
    finally:
        w.close()


def install_points_tables():
    from dv import sched, simkernel as sk
    mods = sk.load_node()
    N = mods["node"].Node
    return sched.install({N.route_answer: None, N._receive_app_request: r"_peer_waiting_answer|waiting|receive_request",
                          N.remove_peer_connection: r"_peer_waiting_answer|del self",
                          N._handle_connections: r"\.recv\(|add_in_bytes|close_connection_socket\("})


def request_vs_eof(decisions):
    """A request and the EOF of its connection reach the node in the same instant: the reader thread handles the
    request while the I/O thread removes the connection.  Afterwards the peer reconnects and the application
    submits its answer (if it was handed the request at all): it must not reach the new connection."""
    from dv import sched
    w = W.NodeWorld({"peers": [{"name": "peer1.example", "ip": ["10.1.1.1"]}],
                     "apps": [{"app_id": 4, "auth": True, "peers": [0], "kind": "basic", "handler": "hold"}],
                     "node_timers": {"idle": 5000, "dwa": 50, "cer": 50, "cea": 50, "wakeup": 3}})
    try:
        NotRoutable = w.mods["node"].NotRoutable
        w.start()
        c = w.handshake_in("peer1.example", auth=[4], ip="10.1.1.1", hbh=0x100)
        ex = sched.Explorer(decisions)
        sched.attach(w.k, ex)
        w.feed_msg(c, {"k": "REQ", "host": "peer1.example", "hbh": 0xa1, "e2e": 0x5101}, run=False)
        c.peer_closed = True
        c.remote.close()
        ex.armed = True
        w.k.run()
        ex.armed = False
        w.advance(1)
        problems = []
        c2 = w.handshake_in("peer1.example", auth=[4], ip="10.1.1.1", hbh=0x110)
        recs = [r for r in w.requests_seen if r["e2e"] == 0x5101]
        if recs:
            call = w.submit_answer(recs[0])
            box = call["box"]
            on_new = [f for f in c2.refresh() if not f.is_request and f.code == 272 and f.h["e2e"] == 0x5101]
            if on_new:
                problems.append(("answer-on-other-connection", "the answer to a request of the lost connection was written to the peer's new connection"))
            elif not isinstance(box["exc"], NotRoutable):
                problems.append(("no-not-routable", f"requester connection gone, submission gave {box['exc']!r}"))
        for sig, d in W.monitor_threads(w):
            problems.append((f"thread-died/{sig}", d))
        return ex.trace, problems, bool(recs)
    finally:
        w.close()


def submit_vs_table_change(decisions, other_event="loss"):
    """The application submits the answer for peer1's request while, in the same instant, another peer's
    connection is lost (its entries leave the tables) or another peer sends its first request (an entry is
    added).  One schedule."""
    from dv import sched
    w = W.NodeWorld({"peers": [{"name": f"peer{i + 1}.example", "ip": [f"10.1.1.{i + 1}"]} for i in range(3)],
                     "apps": [{"app_id": 4, "auth": True, "peers": [0, 1, 2], "kind": "basic", "handler": "hold"}],
                     "node_timers": {"idle": 5000, "dwa": 50, "cer": 50, "cea": 50, "wakeup": 3}})
    try:
        w.start()
        cs = [w.handshake_in(f"peer{i + 1}.example", auth=[4], ip=f"10.1.1.{i + 1}", hbh=0x100 + i) for i in range(3)]
        w.feed_msg(cs[0], {"k": "REQ", "host": "peer1.example", "hbh": 0xa1, "e2e": 0x5101})
        w.feed_msg(cs[1], {"k": "REQ", "host": "peer2.example", "hbh": 0xa1, "e2e": 0x5102})
        # the answer is for peer2's request: its entry is not the first one the search comes across
        rec_ = [r for r in w.requests_seen if r["e2e"] == 0x5102][0]
        app = w.apps[0]
        ans = app.generate_answer(rec_["msg"], result_code=2001)
        w._fill_answer(ans, rec_["msg"])
        ex = sched.Explorer(decisions)
        sched.attach(w.k, ex)
        if other_event == "loss":
            cs[0].peer_closed = True
            cs[0].remote.close()
        else:
            w.feed_msg(cs[2], {"k": "REQ", "host": "peer3.example", "hbh": 0xa1, "e2e": 0x5103}, run=False)
        box = w.k.spawn(lambda: app.send_answer(ans), name="submitter")
        ex.armed = True
        w.k.run()
        ex.armed = False
        w.k.run()
        problems = []
        frames = [f for f in cs[1].refresh() if not f.is_request and f.code == 272 and f.h["hbh"] == 0xa1]
        if box["exc"] is not None:
            problems.append((f"submission-raised/{type(box['exc']).__name__}", repr(box["exc"])))
        if len(frames) != 1:
            problems.append(("answer-count", f"{len(frames)} answers on the requester's connection"))
        for c in (cs[0], cs[2]):
            if [f for f in c.refresh() if not f.is_request and f.code == 272 and f.h["e2e"] == 0x5102]:
                problems.append(("answer-on-other-connection", f"conn {c.idx}"))
        for sig, d in W.monitor_threads(w):
            problems.append((f"thread-died/{sig}", d))
        return ex.trace, problems
    finally:
        w.close()


def schedule_part_tables(rec, shard, nshards, thorough):
    from dv import sched
    from dv.common import fp
    install_points_tables()
    holder_ = {}

    def run_eof(dec):
        tr, problems, seen_ = request_vs_eof(dec)
        holder_["last"] = (problems, seen_)
        return tr
    n_ = 0
    for dec, trace in sched.enumerate_schedules(run_eof, 4 if thorough else 3, shard, nshards):
        case = {"request_vs_eof": True, "schedule": {str(i): c for i, c in sorted(dec.items())}}
        for k_, detail in holder_["last"][0]:
            rec.violation(f"C09/request-vs-eof/{k_}", case, detail)
        n_ += 1
        rec.case(fp("sched-eof", tuple(sorted(dec.items()))) if dec else None,
                 ["schedule-exploration", "request-vs-eof", "request-vs-eof:" + ("delivered" if holder_["last"][1] else "not-delivered")],
                 sample=lambda: dict(case, choice_points=len(trace)))
    rec.extra["request_vs_eof_schedules"] = rec.extra.get("request_vs_eof_schedules", 0) + n_
    for other in ("loss", "first-request"):
        holder = {}

        def run_one(dec, other=other):
            tr, problems = submit_vs_table_change(dec, other)
            holder["last"] = problems
            return tr
        n = 0
        for dec, trace in sched.enumerate_schedules(run_one, 2 if thorough else 1, shard, nshards):
            case = {"submit_vs_table_change": other, "schedule": {str(i): c for i, c in sorted(dec.items())}}
            for k_, detail in holder["last"]:
                rec.violation(f"C09/concurrent-table-change/{k_}", case, detail)
            n += 1
            rec.case(fp("sched-t", other, tuple(sorted(dec.items()))) if dec else None,
                     ["schedule-exploration", "table-change:" + other, f"deviations:{len(dec)}"],
                     sample=lambda: dict(case, choice_points=len(trace)))
        rec.extra["table_change_schedules"] = rec.extra.get("table_change_schedules", 0) + n


def schedule_part(rec, shard, nshards, thorough):
    from dv import sched
    from dv.common import fp
    info = install_points()
    if shard == 0:
        rec.extra["preemption_functions"] = info
    holder = {}
    for nthreads, bound in ((2, 3 if thorough else 2), (3, 2 if thorough else 1)):
        def run_one(dec, nthreads=nthreads):
            holder["last"] = concurrent_double(dec, nthreads)
            return holder["last"][0]
        n = 0
        for dec, trace in sched.enumerate_schedules(run_one, bound, shard, nshards):
            _, frames, ok_calls, errs, died = holder["last"]
            case = {"concurrent_submitters": nthreads, "schedule": {str(i): c for i, c in sorted(dec.items())}}
            if len(frames) > 1:
                rec.violation("C09/concurrent-double-submission/transmitted-twice", case,
                              f"{len(frames)} answers on the wire for one request ({[f.brief() for f in frames]}); errors {errs}")
            elif len(frames) == 1 and len(ok_calls) > 1:
                rec.violation("C09/concurrent-double-submission/no-error", case, f"{len(ok_calls)} submissions returned normally")
            elif not frames:
                rec.violation("C09/concurrent-double-submission/lost", case, f"no answer transmitted; errors {errs}")
            n += 1
            rec.case(fp("sched", nthreads, tuple(sorted(dec.items()))) if dec else None,
                     ["schedule-exploration", f"submitters:{nthreads}", f"deviations:{len(dec)}"],
                     sample=lambda: dict(case, points=len(trace)))
        rec.extra[f"schedules_{nthreads}_submitters"] = rec.extra.get(f"schedules_{nthreads}_submitters", 0) + n


def shard_main(shard, nshards, tier, scale):
    rec = Recorder(PID)
    thorough = tier == "thorough"
    shrunk = set()
    schedule_part(rec, shard, nshards, thorough)
    schedule_part_tables(rec, shard, nshards, thorough)
    if shard == 2 % nshards:
        equal_id_pair_two_connections(rec)
    n = int((10000 if thorough else 800) * scale)
    req = st.tuples(st.just("REQ"), st.integers(0, 2), st.integers(0, 2))
    ev = st.one_of(req, req, req, st.tuples(st.just("REQ_RAISE"), st.integers(0, 2), st.integers(0, 2)),
                   st.tuples(st.just("SUBMIT"), st.integers(0, 3)), st.tuples(st.just("SUBMIT"), st.integers(0, 3)),
                   st.tuples(st.just("SUBMIT_DIRECT"), st.integers(0, 3)), st.tuples(st.just("REQ2_LOST_WHILE_HANDLING"), st.integers(0, 2)),
                   st.tuples(st.just("SUBMIT_AGAIN"), st.integers(0, 3)), st.tuples(st.just("SUBMIT_AGAIN"), st.integers(0, 3)),
                   st.tuples(st.just("FAULT"), st.integers(0, 2), st.sampled_from(["eof", "reset", "dpr", "dpr-close", "reconnect", "reconnect-overlap", "watchdog", "dwa", "dwa", "dpr-second-connection"])),
                   st.tuples(st.just("ADV"), st.sampled_from([1, 2, 4])))

    @st.composite
    def cases(draw):
        return {"npeers": draw(st.integers(1, 3)), "app_kind": draw(st.sampled_from(["basic", "basic", "threading"])),
                "out0": draw(st.booleans()), "name0": draw(st.sampled_from(["peer1.example", "Peer1.Example", "PEER1.EXAMPLE"])),
                "seed": draw(st.integers(0, 7)), "yield_all": draw(st.booleans()), "idle": draw(st.sampled_from([5000, 5000, 3, 6])),
                "slow": draw(st.lists(st.integers(1, 4), min_size=1, max_size=4)),
                "events": [list(e) for e in draw(st.lists(ev, min_size=1, max_size=16))]}

    def body(case):
        res = evaluate(case)
        record(rec, case, res, evaluate, "events", shrunk)
    hyp.run_given(cases(), body, n, derive_seed(PID, "rand", shard), rec=rec)

    # fault enumeration: one request, each fault kind at each point (before submit), then submit
    jobs = []
    for fk in ("eof", "reset", "dpr", "dpr-close", "reconnect", "reconnect-overlap", "dpr-second-connection", None):
        for other_req in (False, True):
            for npeers in (1, 2):
                ev_ = [["REQ", 0, 0]]
                if other_req:
                    ev_.append(["REQ", npeers - 1, 0 if npeers == 2 else 1])
                if fk:
                    ev_.append(["FAULT", 0, fk])
                ev_ += [["SUBMIT", 0], ["SUBMIT", 0], ["SUBMIT_AGAIN", 0]]
                jobs.append({"npeers": npeers, "app_kind": "basic", "events": ev_})
                jobs.append({"npeers": npeers, "app_kind": "basic", "events": ev_, "out0": True, "name0": "Peer1.Example"})
    for mid in ([["FAULT", 0, "watchdog"]], [["FAULT", 0, "watchdog"], ["FAULT", 0, "dwa"]],
                [["FAULT", 0, "watchdog"], ["FAULT", 0, "dpr"], ["FAULT", 0, "dwa"]],
                [["FAULT", 0, "watchdog"], ["FAULT", 0, "dwa"], ["FAULT", 0, "dpr"], ["FAULT", 0, "dwa"]],
                [["FAULT", 0, "dpr"], ["FAULT", 0, "dwa"]]):
        for out0 in (False, True):
            for pre in ([["REQ", 0, 0]], [["FAULT", 0, "watchdog"], ["FAULT", 0, "dwa"], ["REQ", 0, 0]]):
                jobs.append({"npeers": 1, "app_kind": "basic", "idle": 3, "out0": out0, "name0": "peer1.example",
                             "events": pre + mid + [["SUBMIT", 0], ["SUBMIT_AGAIN", 0]]})
    for out0 in (False, True):
        jobs.append({"npeers": 1, "app_kind": "basic", "out0": out0, "name0": "peer1.example",
                     "events": [["REQ2_LOST_WHILE_HANDLING", 0], ["SUBMIT", 0], ["SUBMIT", 0], ["SUBMIT_AGAIN", 0]]})
        jobs.append({"npeers": 2, "app_kind": "basic", "out0": out0, "name0": "peer1.example",
                     "events": [["REQ", 1, 0], ["REQ2_LOST_WHILE_HANDLING", 0], ["SUBMIT", 1], ["SUBMIT", 0], ["SUBMIT", 0]]})
    jobs.append({"npeers": 1, "app_kind": "basic", "events": [["REQ_RAISE", 0, 0], ["SUBMIT_AGAIN", 0]]})
    jobs.append({"npeers": 1, "app_kind": "basic", "events": [["REQ", 0, 0], ["SUBMIT_DIRECT", 0], ["SUBMIT_AGAIN", 0]]})
    jobs.append({"npeers": 2, "app_kind": "basic", "events": [["REQ", 0, 0], ["REQ", 1, 0], ["SUBMIT_DIRECT", 1], ["SUBMIT_AGAIN", 0], ["SUBMIT", 0]]})
    for case in jobs[shard::nshards]:
        res = evaluate(case)
        res.classes.append("fault-grid")
        record(rec, case, res, evaluate, "events", shrunk)
    return rec.dump()


def run(tier, scale=1.0):
    t0 = time.time()
    rec = Recorder(PID)
    for d in hyp.pool_run(shard_main, (tier, scale)):
        rec.merge(d)
    required = {"request-vs-eof": 1, "equal-id-pair-two-connections": 1, "table-change:loss": 1, "table-change:first-request": 1, "schedule-exploration": 1, "deviations:2": 1, "npeers:3": 1, "app:threading": 1, "fault:eof": 1, "fault:reset": 1, "fault:dpr": 1,
                "fault:reconnect": 1, "fault:reconnect-overlap": 1, "fault:dpr-second-connection": 1, "lost-while-handling": 1, "watchdog-outstanding": 1, "dwa-after-dpr": 1, "handler-raised-then-submit": 1, "direct-send-message": 1, "out0:True": 1, "double-submission": 1, "equal-hbh-two-conns": 1, "reqs:4": 1}
    return finish(rec, tier=tier, level=LEVEL, rule=RULE, assumptions=ASSUME, t0=t0,
                  required_classes=required)


def replay(doc):
    case = doc["case"]
    if "concurrent_submitters" in case:
        install_points()
        dec = {int(i): c for i, c in case["schedule"].items()}
        _, frames, ok_calls, errs, died = concurrent_double(dec, case["concurrent_submitters"])
        bad = len(frames) != 1 or len(ok_calls) > 1
        if bad:
            print(f"  replayed: {len(frames)} answers on the wire, {len(ok_calls)} submissions succeeded, errors {errs}")
            print(f"VIOLATION property={PID} replay=(replay)")
            return 1
        print(f"[{PID}] replay: does not reproduce")
        return 0
    return generic_replay(PID, evaluate, doc)
