"""C02 -- message codec byte-exact; class dispatch; AVP search.

Oracle: E1 (dv.refcodec) for header fields, AVP tree and tree search; the
expected class is derived from the registry by naming/subclass relation,
independently of the hand-written type_factory methods.
"""
from __future__ import annotations

import time

from hypothesis import strategies as st

from dv import hyp, libbuild as L, refcodec as R, strategies as S
from dv.common import derive_seed, fp
from dv.evidence import Recorder, finish

import diameter.message            # noqa: E402,F401  (the codec's module state is recorded before its first use)
import diameter.message.commands   # noqa: E402,F401
from dv import codecthreads as CT

PRISTINE = CT.ModuleState()

PID = "C02"
RULE = ("part A: every registered command code (+ run-time registered + unknown codes) x all 256 "
        "flag octets, exhaustively, with boundary header ids; part B: Hypothesis messages of 0..40 "
        "dictionary AVPs (nesting <= 6, repeats, <= 64 KiB) built by E1, decoded generically "
        "(plain_msg, untyped and unknown commands) and typed; part C: sequences of 1..6 distinct "
        "search paths (length 1..4, hits, vendor-distinguished misses, absent codes) per freshly "
        "decoded message; part D: histories of 2..10 decode/register/replace operations on 4 command "
        "codes (registration at run time must be honoured by every later decode). Non-trivial: >= 1 AVP (A/B) or a hit below depth 1 / vendor-distinguished "
        "miss (C); distinct by hash of the message bytes (+ paths).")
ASSUME = ["payloads are type-valid (generic decoding of untyped commands reads every value)",
          "search paths: non-final elements are Grouped-typed; paths distinct per message (per-message cache keyed by path)",
          "expected class = subclass of all_commands[code] named <Command>Request/<Command>Answer by the R bit if it exists, else the registered class; UndefinedMessage for unknown codes",
          "typed classes regenerate their AVP list from attributes (documented), so AVP-sequence identity is demanded of generic decoding only",
          "reference codec dv/refcodec.py is the trusted oracle"]

U24 = (1 << 24) - 1
U32 = (1 << 32) - 1
ID_EDGE = [0, 1, 0x7fffffff, 0x80000000, U32, 0x01020304]


def all_subclasses(k):
    out, todo = [], [k]
    while todo:
        c = todo.pop()
        for s in c.__subclasses__():
            if s not in out:
                out.append(s)
                todo.append(s)
    return out


def expected_class(code: int, is_request: bool, plain: bool):
    from diameter.message import UndefinedMessage
    from diameter.message.commands import all_commands
    K = all_commands.get(code)
    if K is None:
        return UndefinedMessage
    if plain:
        return K
    want = K.__name__ + ("Request" if is_request else "Answer")
    cands = [s for s in all_subclasses(K) if s.__name__ == want]
    return cands[0] if cands else K


def is_typed(cls) -> bool:
    from diameter.message import DefinedMessage
    return issubclass(cls, DefinedMessage) and bool(getattr(cls, "avp_def", ()))


# --------------------------------------------------------------------------
def compare_tree(lib_avps, ref_avps, idmap, where="") -> str | None:
    from diameter.message.avp import AvpGrouped
    if len(lib_avps) != len(ref_avps):
        return f"{where}: {len(lib_avps)} AVPs, wire has {len(ref_avps)}"
    for i, (la, ra) in enumerate(zip(lib_avps, ref_avps)):
        if (la.code, la.vendor_id, la.flags) != (ra.code, ra.vendor, ra.flags):
            return (f"{where}[{i}]: header ({la.code},{la.vendor_id},{la.flags:#x}) != "
                    f"wire ({ra.code},{ra.vendor},{ra.flags:#x})")
        if la.payload != ra.data:
            return f"{where}[{i}]: payload differs"
        idmap[id(la)] = ra.start
        if ra.children is not None:
            if not isinstance(la, AvpGrouped):
                return f"{where}[{i}]: grouped on the wire, {type(la).__name__} decoded"
            m = compare_tree(la.value, ra.children, idmap, f"{where}[{i}]")
            if m:
                return m
    return None


def check_message(D, ms, rec: Recorder, paths=None):
    """ms: message spec {version, flags, code, app, hbh, e2e, avps:[avp specs]}"""
    from diameter.message import Message, MessageHeader
    body = b"".join(S.ref_encode(D, a) for a in ms["avps"])
    buf = R.enc_message(ms["version"], ms["flags"], ms["code"], ms["app"], ms["hbh"],
                        ms["e2e"], body)
    if len(buf) > 65535:
        rec.excluded["over-64KiB"] += 1
        return
    hdr, tree = R.parse_message(buf, R.dict_is_grouped)
    is_req = bool(ms["flags"] & 0x80)
    n_avps = sum(1 for _ in R.walk(tree))

    for plain in (False, True):
        mode = "plain" if plain else "typed-dispatch"
        want_cls = expected_class(ms["code"], is_req, plain)
        try:
            msg = Message.from_bytes(buf, plain_msg=True) if plain else Message.from_bytes(buf)
        except Exception as e:
            rec.violation(f"C02/decode-raises/{mode}/{type(e).__name__}", ms, repr(e))
            continue
        if type(msg) is not want_cls:
            rec.violation(f"C02/dispatch/{mode}", ms,
                          f"code {ms['code']} R={is_req}: got {type(msg).__name__}, expected {want_cls.__name__}")
        h = msg.header
        got = (h.version, h.command_flags, h.command_code, h.application_id,
               h.hop_by_hop_identifier, h.end_to_end_identifier)
        exp = (hdr["version"], hdr["flags"], hdr["code"], hdr["app_id"], hdr["hbh"], hdr["e2e"])
        names = ("version", "flags", "command_code", "application_id", "hop_by_hop", "end_to_end")
        for n_, g, e in zip(names, got, exp):
            if g != e:
                kind = "typed" if is_typed(type(msg)) else "generic"
                rec.violation(f"C02/header/{n_}/{kind}", ms,
                              f"{type(msg).__name__}: decoded {n_}={g:#x}, wire {e:#x}")
        if h.length != len(buf):
            rec.violation("C02/header/length", ms, f"{h.length} != {len(buf)}")
        if (h.is_request, h.is_proxyable, h.is_error, h.is_retransmit) != tuple(
                bool(h.command_flags & b) for b in (0x80, 0x40, 0x20, 0x10)):
            rec.violation("C02/header/flag-accessors", ms, "is_* accessors disagree with the flag octet")

        generic = not is_typed(type(msg))
        if generic:
            idmap = {}
            try:
                m = compare_tree(msg.avps, tree, idmap, "avps")
            except Exception as e:
                m = f"walking the decoded tree raised {e!r}"
            if m:
                rec.violation(f"C02/avps/{mode}", ms, m)
            try:
                again = msg.as_bytes()
                if again != buf:
                    rec.violation(f"C02/reencode/{mode}", ms,
                                  f"{again.hex()[:120]} != {buf.hex()[:120]} (len {len(again)} vs {len(buf)})")
            except Exception as e:
                rec.violation(f"C02/reencode-raises/{mode}/{type(e).__name__}", ms, repr(e))
            if paths and not m:
                check_paths(msg, tree, idmap, paths, ms, rec, mode)

    # construction + encoding through the public classes
    try:
        libs = [L.build_lib_avp(D, a)[0] for a in ms["avps"]]
        m1 = Message(MessageHeader(ms["version"], 0, ms["flags"], ms["code"], ms["app"],
                                   ms["hbh"], ms["e2e"]), avps=libs)
        out1 = m1.as_bytes()
        m2 = Message()
        m2.header.version, m2.header.command_flags = ms["version"], ms["flags"]
        m2.header.command_code, m2.header.application_id = ms["code"], ms["app"]
        m2.header.hop_by_hop_identifier, m2.header.end_to_end_identifier = ms["hbh"], ms["e2e"]
        for a in libs:
            m2.append_avp(a)
        out2 = m2.as_bytes()
        for tag, o, mm in (("ctor", out1, m1), ("append", out2, m2)):
            if o != buf:
                which = "header" if o[:20] != buf[:20] else "avps"
                rec.violation(f"C02/encode/{tag}/{which}", ms,
                              f"{o[:40].hex()} != {buf[:40].hex()} (len {len(o)} vs {len(buf)})")
            if mm.header.length != len(o):
                rec.violation(f"C02/encode/{tag}/length-attr", ms, f"{mm.header.length} != {len(o)}")
    except Exception as e:
        rec.violation(f"C02/encode-raises/{type(e).__name__}", ms, repr(e))

    nt = fp(hash(buf)) if n_avps else None
    from diameter.message.commands import all_commands
    kind = "unknown-code" if ms["code"] not in all_commands else (
        "typed-cmd" if is_typed(expected_class(ms["code"], is_req, False)) else "untyped-cmd")
    rec.case(nt, [f"cmd:{kind}", f"navps:{min(n_avps, 40) // 10 * 10}+", f"depth:{R.max_depth(tree)}"],
             sample=lambda: {"message": {k: v for k, v in ms.items() if k != 'avps'},
                             "n_avps": n_avps, "wire": buf.hex()[:160]})


def check_paths(msg, tree, idmap, paths, ms, rec, mode):
    seen = set()
    for path in paths:
        tpath = tuple(tuple(p) for p in path)
        if tpath in seen:
            continue
        seen.add(tpath)
        ref = [a.start for a in R.find(tree, tpath)]
        try:
            if (len(seen) + len(tpath)) % 3 == 0:
                # the same path is first searched in another AVP list (the documented alt_list use): that search
                # answers for that list, and must not change what the message itself answers afterwards
                other_list = msg.avps[:1]
                alt = msg.find_avps(*tpath, alt_list=other_list)
                alt_ref = [a.start for a in R.find(tree[:1], tpath)]
                if [idmap.get(id(o), -1) for o in alt] != alt_ref:
                    rec.violation("C02/find/alt-list", {"msg": ms, "path": tpath},
                                  f"search of the first AVP only: positions {[idmap.get(id(o), -1) for o in alt]} != reference {alt_ref}")
                rec.cls("find:after-alt-list-search")
            got = msg.find_avps(*tpath)
            got_pos = [idmap.get(id(o), -1) for o in got]
        except Exception as e:
            rec.violation(f"C02/find-raises/{type(e).__name__}", {"msg": ms, "path": tpath}, repr(e))
            continue
        if got_pos != ref:
            kind = "missing" if len(got_pos) < len(ref) else "extra" if len(got_pos) > len(ref) else "order-or-identity"
            rec.violation(f"C02/find/{kind}/len{len(tpath)}", {"msg": ms, "path": tpath},
                          f"path {tpath}: positions {got_pos} != reference {ref}")
        deep_hit = bool(ref) and len(tpath) > 1
        vendor_miss = not ref and any(
            a.code == tpath[-1][0] and a.vendor != tpath[-1][1] for a in R.walk(tree))
        rec.case(fp("find", ms["hbh"], ms["e2e"], len(ms["avps"]), tpath) if (deep_hit or vendor_miss) else None,
                 [f"find:len{len(tpath)}", "find:hit" if ref else "find:miss"] +
                 (["find:deep-hit"] if deep_hit else []) + (["find:vendor-miss"] if vendor_miss else []))


# --------------------------------------------------------------------------
# strategies
# --------------------------------------------------------------------------
def header_ids():
    return st.one_of(st.sampled_from(ID_EDGE), st.integers(0, U32))


def registered_codes():
    from diameter.message.commands import all_commands
    return sorted(all_commands)


@st.composite
def message_spec(draw, D, codes, max_avps=40, generic_only=False):
    from diameter.message.commands import all_commands
    which = draw(st.integers(0, 9))
    if which < 6:
        code = draw(st.sampled_from(codes))
    elif which < 8:
        code = draw(st.sampled_from([c for c in codes if not is_typed(expected_class(c, True, False))] or codes))
    else:
        code = draw(st.one_of(st.integers(0, U24), st.sampled_from([1, 2, U24, 999]))
                    .filter(lambda c: c not in all_commands))
    n = draw(st.one_of(st.integers(0, 4), st.integers(0, max_avps)))
    small = n > 8
    avps = []
    for _ in range(n):
        if avps and draw(st.integers(0, 5)) == 0:
            avps.append(draw(st.sampled_from(avps)))      # repeated AVP
        else:
            avps.append(draw(S.avp_spec(D, 0, 6, 128 if small else 1024, small=small)))
    return {"version": draw(st.one_of(st.just(1), st.integers(0, 255))),
            "flags": draw(st.integers(0, 255)), "code": code,
            "app": draw(header_ids()), "hbh": draw(header_ids()), "e2e": draw(header_ids()),
            "avps": avps}


def spec_paths(D, ms):
    """All (code, vendor) paths present in a message spec, with their depth."""
    out = []

    def rec_(a, prefix):
        p = prefix + [(a["code"], a["vendor"])]
        out.append(p)
        if a["v"]["t"] == "Grouped" and len(p) < 4:
            for k in a["v"]["j"]:
                rec_(k, p)
    for a in ms["avps"]:
        rec_(a, [])
    return out


@st.composite
def message_and_paths(draw, D, codes):
    ms = draw(message_spec(D, codes, max_avps=12))
    present = spec_paths(D, ms)
    paths = []
    for _ in range(draw(st.integers(1, 6))):
        k = draw(st.integers(0, 9))
        if present and k < 6:
            p = list(draw(st.sampled_from(present)))
        elif present and k < 8:
            p = list(draw(st.sampled_from(present)))
            c, v = p[-1]
            alt = draw(st.sampled_from([0, 10415, 13019, v + 1]))
            p[-1] = (c, alt if alt != v else v + 2)       # vendor-distinguished miss
        else:
            ln = draw(st.integers(1, 4))
            p = [(e[0], e[1]) for e in draw(st.lists(st.sampled_from(D.grouped), min_size=ln - 1, max_size=ln - 1))]
            e = draw(st.sampled_from(D.entries))
            p.append((e[0], e[1]))
        # non-final elements must be Grouped-typed
        if all(D.tname(c, v) == "Grouped" for c, v in p[:-1]) and p not in paths:
            paths.append(p)
    return ms, paths


# --------------------------------------------------------------------------
def register_runtime_commands():
    """Two commands registered at run time: one with a type_factory and
    Request/Answer subclasses, one without."""
    from diameter.message import DefinedMessage
    from diameter.message.commands import register

    class VerifSplit(DefinedMessage):
        code = 16000001
        name = "Verif-Split"

        def __post_init__(self):
            self.header.command_code = self.code
            super().__post_init__()

        @classmethod
        def type_factory(cls, header):
            return VerifSplitRequest if header.is_request else VerifSplitAnswer

    class VerifSplitRequest(VerifSplit):
        pass

    class VerifSplitAnswer(VerifSplit):
        pass

    class VerifPlain(DefinedMessage):
        code = 16000002
        name = "Verif-Plain"

        def __post_init__(self):
            self.header.command_code = self.code
            super().__post_init__()

    register(VerifSplit)
    register(VerifPlain)
    return [VerifSplit.code, VerifPlain.code]


def unregister(codes):
    from diameter.message.commands import all_commands
    for c in codes:
        all_commands.pop(c, None)


LATE_CODES = [16000011, 16000012, 280, 272]


def make_late_class(code, split, gen):
    from diameter.message import DefinedMessage
    ns = {}
    name = f"VerifLate{code}g{gen}"

    def post(self):
        self.header.command_code = self.code
        DefinedMessage.__post_init__(self)
    base = type(name, (DefinedMessage,), {"code": code, "name": name, "__post_init__": post})
    if split:
        req = type(name + "Request", (base,), {})
        ans = type(name + "Answer", (base,), {})
        base.type_factory = classmethod(lambda cls, header: req if header.is_request else ans)
    return base


def check_registration_history(ops, rec: Recorder):
    """ops: list of ("decode", code_idx, is_request, plain) | ("register", code_idx, split).
    A command registered (or replaced) at any point of the history must be used
    by every later decode."""
    from diameter.message import Message
    from diameter.message.commands import all_commands, register
    saved = {c: all_commands.get(c) for c in LATE_CODES}
    gen = 0
    try:
        seen_register = False
        for op in ops:
            if op[0] == "register":
                gen += 1
                register(make_late_class(LATE_CODES[op[1]], op[2], gen))
                seen_register = True
                continue
            _, ci, is_req, plain = op
            code = LATE_CODES[ci]
            buf = R.enc_message(1, 0x80 if is_req else 0, code, 0, 1, 2,
                                R.enc_avp(263, 0, 0x40, b"a;b"))
            want = expected_class(code, is_req, plain)
            try:
                msg = Message.from_bytes(buf, plain_msg=plain)
            except Exception as e:
                rec.violation(f"C02/dispatch-history/raises/{type(e).__name__}", {"ops": ops}, repr(e))
                break
            if type(msg) is not want:
                rec.violation("C02/dispatch-history/stale-class", {"ops": ops},
                              f"after {ops}: code {code} R={is_req} plain={plain} decoded as {type(msg).__name__}, registry says {want.__name__}")
                break
        nreg = sum(1 for o in ops if o[0] == "register")
        rec.case(fp("hist", tuple(map(tuple, ops))) if nreg and ops[-1][0] == "decode" else None,
                 ["history:register-then-decode" if nreg else "history:decode-only"],
                 sample=lambda: {"registration_history": ops})
    finally:
        for c, k in saved.items():
            if k is None:
                all_commands.pop(c, None)
            else:
                all_commands[c] = k


def history_ops():
    dec = st.tuples(st.just("decode"), st.integers(0, len(LATE_CODES) - 1), st.booleans(), st.booleans())
    reg = st.tuples(st.just("register"), st.integers(0, len(LATE_CODES) - 1), st.booleans())
    return st.lists(st.one_of(dec, dec, reg), min_size=2, max_size=10).map(lambda l: [list(x) for x in l])


def check_concurrent_searches(D, t, rec: Recorder):
    """One decoded message, searched by two or three threads at once (the reader thread dispatching it and the
    application looking into it, say): every search returns what it returns on a message decoded for it alone."""
    from diameter.message import Message
    (ms, paths), seed, p = t
    body = b"".join(S.ref_encode(D, a) for a in ms["avps"])
    buf = R.enc_message(ms["version"], ms["flags"], ms["code"], ms["app"], ms["hbh"], ms["e2e"], body)
    if len(buf) > 65535 or len(paths) < 2:
        return
    paths = [tuple(tuple(x) for x in pth) for pth in paths][:3]

    def make():
        msg = Message.from_bytes(buf, plain_msg=True)

        def search(pth):
            return [(a.code, a.vendor_id, bytes(a.payload)) for a in msg.find_avps(*pth)]
        return [lambda pth=pth: search(pth) for pth in paths] + [lambda: msg.as_bytes()]
    try:
        conc, seq, taken, errs = CT.concurrent_vs_sequential(make, PRISTINE, seed, p, 6)
    except Exception as e:
        rec.violation(f"C02/concurrent/raises/{type(e).__name__}", ms, repr(e)[:300])
        return
    case = {"concurrent": True, "ms": ms, "paths": [list(map(list, pth)) for pth in paths], "seed": seed, "p": p}
    for i, (c, s_) in enumerate(zip(conc, seq)):
        if c != s_:
            what = f"search {list(paths[i])}" if i < len(paths) else "as_bytes"
            rec.violation("C02/concurrent/" + ("find-differs" if i < len(paths) else "bytes-differ"), case,
                          f"thread {i} ({what}): {str(c)[:140]} but alone {str(s_)[:140]}; schedule {taken}")
            break
    for e in errs:
        rec.violation("C02/concurrent/thread-error", case, e[:300])
    rec.case(fp("conc", hash(buf), tuple(paths), tuple(sorted(taken.items()))) if taken else None,
             ["concurrent-searches", f"concurrent:paths:{len(paths)}", f"concurrent:switches:{min(len(taken), 6)}",
              "concurrent:through-a-group" if any(len(pth) > 1 for pth in paths) else "concurrent:top-level-only"],
             sample=lambda: {"paths": [list(pth) for pth in paths], "schedule": {str(i): c for i, c in taken.items()}})


def shard_main(shard, nshards, tier, scale):
    rec = Recorder(PID)
    D = S.Dict()
    thorough = tier == "thorough"
    rt_codes = register_runtime_commands()
    try:
        codes = registered_codes()
        from diameter.message.commands import all_commands
        unknown = [c for c in (1, 2, 255, 999, 70000, U24, U24 - 1, 8388608) if c not in all_commands]
        # part A: exhaustive code x flag octet
        fixed_avps = [
            [],
            [{"code": 263, "vendor": 0, "m": None, "p": None, "v": {"t": "UTF8String", "j": "a;b;c"}},
             {"code": 264, "vendor": 0, "m": None, "p": None, "v": {"t": "OctetString", "j": "686f7374"}},
             {"code": 268, "vendor": 0, "m": True, "p": None, "v": {"t": "Unsigned32", "j": 2001}}],
        ]
        space = [(c, f) for c in codes + unknown for f in range(256)]
        for i, (c, f) in enumerate(space[shard::nshards]):
            ids = ID_EDGE[(i + shard) % len(ID_EDGE)]
            ms = {"version": 1 if i % 7 else (i % 256), "flags": f, "code": c,
                  "app": ID_EDGE[(i // 3) % len(ID_EDGE)], "hbh": ids,
                  "e2e": ID_EDGE[(i // 5 + 1) % len(ID_EDGE)], "avps": fixed_avps[i % 2]}
            check_message(D, ms, rec)
            rec.cls("partA")
        rec.extra["codes_enumerated"] = len(codes) + len(unknown)
        # part B
        n_msg = int((30000 if thorough else 1500) * scale)

        def body(ms):
            check_message(D, ms, rec)
        hyp.run_given(message_spec(D, codes), body, n_msg, derive_seed(PID, "msg", shard), rec=rec)
        # part C
        n_find = int((30000 if thorough else 1500) * scale)

        def fbody(mp):
            ms, paths = mp
            check_message(D, ms, rec, paths=paths)
        hyp.run_given(message_and_paths(D, codes), fbody, n_find, derive_seed(PID, "find", shard), rec=rec)
        # concurrent searches of one message (the preemption points slow the codec down: towards the end)
        info = CT.install_points()
        if shard == 0:
            rec.extra["concurrent_preemption_functions"] = len(info)
        cstrat = st.tuples(message_and_paths(D, codes), st.integers(0, 1 << 30), st.sampled_from([0.02, 0.08, 0.3]))
        hyp.run_given(cstrat, lambda t: check_concurrent_searches(D, t, rec), int((1500 if thorough else 400) * scale) or 5,
                      derive_seed(PID, "concurrent", shard), rec=rec)
        from dv import sched as _sched
        _sched.clear()
    finally:
        unregister(rt_codes)
    # part D: histories of decode / register / replace (run last: it touches the registry)
    n_hist = int((4000 if thorough else 300) * scale)
    hyp.run_given(history_ops(), lambda ops: check_registration_history(ops, rec), n_hist,
                  derive_seed(PID, "hist", shard), rec=rec)
    return rec.dump()


def run(tier, scale=1.0):
    t0 = time.time()
    rec = Recorder(PID)
    for d in hyp.pool_run(shard_main, (tier, scale)):
        rec.merge(d)
    required = {"concurrent-searches": 1, "concurrent:through-a-group": 1, "concurrent:switches:6": 1, "find:after-alt-list-search": 1, "cmd:typed-cmd": 1, "cmd:untyped-cmd": 1, "cmd:unknown-code": 1,
                "find:deep-hit": 1, "find:vendor-miss": 1, "find:len4": 1, "depth:6": 1,
                "navps:40+": 1, "history:register-then-decode": 1}
    return finish(rec, tier=tier, level="exploration", rule=RULE, assumptions=ASSUME, t0=t0,
                  required_classes=required,
                  extra_cov={"exhaustive_part": "every registered command code (+2 run-time registered, +unknown codes) x all 256 flag octets"})


def replay(doc):
    rec = Recorder(PID)
    D = S.Dict()
    rt = register_runtime_commands()
    try:
        case = doc["case"]
        if "ops" in case:
            check_registration_history(case["ops"], rec)
        elif "msg" in case:
            check_message(D, case["msg"], rec, paths=[case["path"]])
        else:
            check_message(D, case, rec)
    finally:
        unregister(rt)
    if doc["signature"] in rec.violations:
        print(f"  replayed: {rec.violations[doc['signature']]['detail'][:300]}")
        print(f"VIOLATION property={PID} replay=(replay)")
        return 1
    print(f"[{PID}] replay: signature does not reproduce")
    return 0
