"""C10 -- requests go only to eligible ready peers; answers return to their sender.

Configurations of 1..3 applications x 1..4 peers in 1..2 realms with every
per-peer connection state, default peers and recorded selection callbacks;
1..4 requests sent concurrently from separate simulated threads; answers in
every order, late, duplicated or with unknown identifiers.  Reference model:
eligibility from the configuration and the connection states, waiter
correlation by (hop-by-hop, end-to-end).
"""
from __future__ import annotations

import time

from hypothesis import strategies as st

from dv import hyp, world as W
from dv.common import derive_seed
from dv.evidence import Recorder, finish
from checks.nodecommon import Result, record, generic_replay

PID = "C10"
RULE = ("cases = configuration (1..4 peers with realm, default flag and state in {none, awaiting-CE, ready, "
        "waiting-DWA, disconnecting, closed}; 1..3 applications with peer subsets and extra realms; "
        "selection callback none/first/last) x history of 1..14 events {send request (application, "
        "realm, timeout, own hop-by-hop or not), answer k-th outstanding request good / wrong end-to-end "
        "/ unknown hop-by-hop / duplicate, advance}. Non-trivial: >= 2 eligible peers, or no eligible "
        "peer, or an answer that is late, duplicated, out of order or carries unknown ids; distinct by case.")
ASSUME = ["requests carry the AVPs their command requires (Destination-Realm is always set)",
          "eligible peers: S1 = ready peers of the application's list for the realm (realm defaults when the application has no list there); "
          "S2 = ready peers of list U defaults. A request must go to a member of S2, must be sent when S1 is non-empty, must raise NotRoutable when S2 is empty",
          "the selection callback must be invoked with ready, configured peers only and its choice honoured",
          "senders run on harness-owned simulated threads; evaluation at quiescent points"]

STATES = ["none", "awaiting", "ready", "ready", "ready", "waiting-dwa", "disconnecting", "closed", "disconnecting-late-dwa"]
REALMS = ["example", "r2.example"]


def world_cfg(case):
    peers = []
    for i, p in enumerate(case["peers"]):
        peers.append({"name": f"peer{i + 1}.example", "realm": p["realm"], "ip": [f"10.1.1.{i + 1}"],
                      "default": p["default"], "timers": {"idle": 2} if p["state"] in ("waiting-dwa", "disconnecting-late-dwa") else {}})
    apps = []
    for a in case["apps"]:
        apps.append({"app_id": a["id"], "auth": True, "peers": a["peers"], "realms": a.get("realms"),
                     "kind": a.get("kind", "basic"), "handler": "answer"})
    return {"peers": peers, "apps": apps, "select_func": case.get("select"),
            "node_timers": {"idle": 5000, "dwa": 5000, "cer": 5000, "cea": 5000, "wakeup": 2},
            "sched_seed": case.get("seed", 0), "yield_all": case.get("yield_all", False)}


def evaluate(case) -> Result:
    from diameter.message.commands import CreditControlRequest
    res = Result()
    w = W.NodeWorld(world_cfg(case))
    try:
        pm = w.mods["peer"]
        NotRoutable = w.mods["node"].NotRoutable
        w.start()
        app_ids = sorted({a["id"] for a in case["apps"]})
        conn_of = {}
        for i, p in enumerate(case["peers"]):
            host = f"peer{i + 1}.example"
            ip = f"10.1.1.{i + 1}"
            if p["state"] == "none":
                continue
            if p["state"] == "awaiting":
                c = w.accept(ip)
                c.host = None
                conn_of[i] = c
                continue
            c = w.handshake_in(host, auth=app_ids, ip=ip, hbh=0x100 + i)
            conn_of[i] = c
        if any(p["state"] in ("waiting-dwa", "disconnecting-late-dwa") for p in case["peers"]):
            w.advance(5)
        for i, p in enumerate(case["peers"]):
            c = conn_of.get(i)
            if c is None:
                continue
            if p["state"] == "disconnecting":
                w.feed_msg(c, {"k": "DPR", "host": f"peer{i + 1}.example", "hbh": 0x180 + i, "e2e": 0x180 + i})
            elif p["state"] == "disconnecting-late-dwa":
                # the node's DWR is outstanding when the DPR arrives; its DWA comes afterwards
                dwrs = [f for f in c.refresh() if f.is_request and f.code == 280]
                w.feed_msg(c, {"k": "DPR", "host": f"peer{i + 1}.example", "hbh": 0x180 + i, "e2e": 0x180 + i})
                ids = {"hbh": dwrs[-1].h["hbh"], "e2e": dwrs[-1].h["e2e"]} if dwrs else {"hbh": 0x190 + i, "e2e": 0x190 + i}
                w.feed_msg(c, dict(ids, k="DWA", host=f"peer{i + 1}.example"))
            elif p["state"] == "closed":
                w.peer_close(c)

        def ready_peers():
            # the harness's own account of readiness (not the node's state field): the exchange succeeded, no DPR
            # was received, the connection is still open
            out = set()
            for i, p in enumerate(case["peers"]):
                c = conn_of.get(i)
                if p["state"] in ("ready", "waiting-dwa") and c is not None and not c.node_closed and not c.peer_closed:
                    out.add(i)
            return out

        # sanity: the intended states were reached
        for i, p in enumerate(case["peers"]):
            pc = w.peers[i].connection
            st_ = None if pc is None else pc.state
            want = {"ready": pm.PEER_READY, "waiting-dwa": pm.PEER_READY_WAITING_DWA,
                    "disconnecting": pm.PEER_DISCONNECTING, "disconnecting-late-dwa": pm.PEER_DISCONNECTING}.get(p["state"])
            if want is not None and st_ != want:
                res.classes.append("setup-state-missed")

        # routes as the configuration defines them
        routes = {NODE_REALM: {"_default": []}}
        for i, p in enumerate(case["peers"]):
            if p["default"]:
                routes.setdefault(p["realm"], {}).setdefault("_default", []).append(i)
        for ai, a in enumerate(case["apps"]):
            for pi in a["peers"]:
                for r in [case["peers"][pi]["realm"]] + (a.get("realms") or []):
                    routes.setdefault(r, {}).setdefault(ai, []).append(pi)

        sends = []          # dicts: app, realm, call record, frame, conn idx
        seen_frames = {i: 0 for i in conn_of}
        nontrivial = False
        e2e_next = [0x9000]

        def new_request_frames():
            out = []
            for i, c in conn_of.items():
                fr = c.refresh()
                for f in fr[seen_frames[i]:]:
                    if f.is_request and f.code in (272, 8388700):
                        out.append((i, f))
                seen_frames[i] = len(fr)
            return out

        for ev in case["events"]:
            kind = ev[0]
            if kind == "SEND":
                _, ai, realm, timeout, own_hbh = ev[:5]
                dest = ev[5] if len(ev) > 5 else None
                ai = ai % len(case["apps"])
                app = w.apps[ai]
                untyped = len(ev) > 6 and bool(ev[6])
                if untyped:
                    # a request of a command without a python class, built by the application from AVPs
                    from diameter.message import Message
                    from diameter.message.avp import Avp
                    from diameter.message import constants as C_
                    msg = Message()
                    msg.header.command_code = 8388700
                    msg.header.is_request = True
                    msg.header.is_proxyable = True
                    msg.append_avp(Avp.new(C_.AVP_SESSION_ID, value="n;1"))
                    msg.append_avp(Avp.new(C_.AVP_ORIGIN_HOST, value=W.NODE_HOST.encode()))
                    msg.append_avp(Avp.new(C_.AVP_ORIGIN_REALM, value=W.NODE_REALM.encode()))
                    if realm is not None:
                        msg.append_avp(Avp.new(C_.AVP_DESTINATION_REALM, value=realm.encode()))
                    res.classes.append("request:untyped")
                else:
                    msg = CreditControlRequest()
                    msg.session_id = "n;1"
                    msg.origin_host = W.NODE_HOST.encode()
                    msg.origin_realm = W.NODE_REALM.encode()
                    if realm is not None:
                        msg.destination_realm = realm.encode()
                    msg.service_context_id = "x"
                    msg.cc_request_type = 1
                    msg.cc_request_number = 0
                if realm is None:
                    res.classes.append("request:no-destination-realm")
                if dest is not None and not untyped:
                    # Destination-Host names the final recipient of the request; which directly connected peer is
                    # eligible for it is a matter of the configuration alone
                    msg.destination_host = (f"peer{dest % (len(case['peers']) + 1) + 1}.example").encode()
                    res.classes.append("destination-host:" + ("a-peer" if dest % (len(case["peers"]) + 1) < len(case["peers"]) else "not-a-peer"))
                e2e_next[0] += 1
                msg.header.end_to_end_identifier = e2e_next[0]
                if own_hbh:
                    # the caller has numbered the request itself (the node sets the identifier "if not already
                    # present"); values that no generator hands out in these runs and that differ per request
                    msg.header.hop_by_hop_identifier = 0x6000 + len(sends)
                    res.classes.append("hop-by-hop:set-by-caller")
                R_ = realm if realm is not None else NODE_REALM
                rp = ready_peers()
                lst = routes.get(R_, {}).get(ai)
                dflt = routes.get(R_, {}).get("_default", [])
                S1 = set(lst if lst is not None else dflt) & rp
                S2 = (set(lst or []) | set(dflt)) & rp if R_ in routes else set()
                if R_ not in routes:
                    S1 = set()
                n_sel = len(w.route_select_calls)
                new_request_frames()
                call = w.app_call(lambda m=msg, t=timeout: app.send_request(m, timeout=t), name=f"sender{len(sends)}")
                frames = new_request_frames()
                mine = [(i, f) for i, f in frames if f.h["e2e"] == e2e_next[0]]
                box = call["box"]
                desc = f"send app={ai} realm={R_} S1={sorted(S1)} S2={sorted(S2)} ready={sorted(rp)}"
                rec_ = {"app": ai, "call": call, "frame": None, "conn": None, "e2e": e2e_next[0], "timeout": timeout,
                        "t": w.k.now, "answered": False, "expect": None}
                sends.append(rec_)
                if len(S1) > 1 or not S2:
                    nontrivial = True
                raised = box["done"] and isinstance(box["exc"], NotRoutable)
                if len(mine) > 1:
                    res.v("C10/sent-twice", f"{desc}: request written to connections {[i for i, _ in mine]}")
                if raised and mine:
                    res.v("C10/not-routable-but-sent", f"{desc}: NotRoutable raised but the request was written to peer {mine[0][0]}")
                if not S2:
                    if not raised:
                        res.v("C10/no-eligible-peer/" + ("sent" if mine else "no-error"),
                              f"{desc}: expected NotRoutable, got {'a request on peer ' + str(mine[0][0]) if mine else repr(box['exc'])}")
                else:
                    if mine:
                        i, f = mine[0]
                        if i not in S2:
                            why = "not ready" if i not in rp else "not configured for the application/realm"
                            res.v("C10/ineligible-peer/" + why.replace(" ", "-").replace("/", "-"),
                                  f"{desc}: request sent to peer {i} ({why}; state {case['peers'][i]['state']})")
                        rec_["frame"], rec_["conn"] = f, i
                        if f.h["hbh"] == 0:
                            res.v("C10/zero-hop-by-hop", desc)
                        if own_hbh and f.h["hbh"] != 0x6000 + len(sends) - 1:
                            res.v("C10/caller-hop-by-hop-replaced", f"{desc}: the caller set {0x6000 + len(sends) - 1:#x}, the request left with {f.h['hbh']:#x}")
                        clash = [s for s in sends[:-1] if s["conn"] == i and s["frame"] is not None and
                                 not s["call"]["box"]["done"] and s["frame"].h["hbh"] == f.h["hbh"]]
                        if clash:
                            res.v("C10/duplicate-hop-by-hop", f"{desc}: hop-by-hop {f.h['hbh']:#x} already outstanding on peer {i}")
                    elif S1 and not mine:
                        res.v("C10/eligible-but-not-sent", f"{desc}: {repr(box['exc']) if box['done'] else 'sender blocked'} and nothing written")
                # selection callback
                if case.get("select"):
                    calls = w.route_select_calls[n_sel:]
                    if len(S1) > 1:
                        if len(calls) != 1:
                            res.v("C10/select/not-invoked", f"{desc}: callback invoked {len(calls)} times")
                        else:
                            got = sorted(int(n[4:].split(".")[0]) - 1 for n in calls[0]["peers"])
                            if not (set(got) <= S2) or set(got) != S1:
                                res.v("C10/select/wrong-list", f"{desc}: callback got peers {got}")
                            elif mine:
                                order = sorted(got)
                                want = order[-1] if case["select"] == "last" else order[0]
                                if mine[0][0] != want:
                                    res.v("C10/select/choice-ignored", f"{desc}: callback chose peer {want}, request went to {mine[0][0]}")
                    elif calls and len(S1) <= 1 and any(
                            int(n[4:].split(".")[0]) - 1 not in rp for n in calls[0]["peers"]):
                        res.v("C10/select/non-ready-offered", f"{desc}: {calls[0]['peers']}")
            elif kind == "ANSWER":
                _, k, variant = ev
                out = [s for s in sends if s["frame"] is not None]
                if not out:
                    continue
                s_ = out[k % len(out)]
                f, i = s_["frame"], s_["conn"]
                c = conn_of[i]
                host = f"peer{i + 1}.example"
                n_ans = len(w.answers_seen)
                waiting = not s_["call"]["box"]["done"]
                if variant == "good":
                    w.feed_msg(c, {"k": "ANS", "host": host, "hbh": f.h["hbh"], "e2e": f.h["e2e"], "app": f.h["app_id"], "code": f.code})
                    new = w.answers_seen[n_ans:]
                    if waiting:
                        if s_["answered"]:
                            pass
                        box = s_["call"]["box"]
                        if not box["done"] or box["exc"] is not None:
                            res.v("C10/answer-not-delivered-to-sender", f"sender of e2e {f.h['e2e']:#x} still blocked / failed after its answer: {box['exc']!r}")
                        else:
                            h = box["result"].header
                            if (h.hop_by_hop_identifier, h.end_to_end_identifier) != (f.h["hbh"], f.h["e2e"]):
                                res.v("C10/wrong-answer-to-sender", f"sender got {h.hop_by_hop_identifier:#x}/{h.end_to_end_identifier:#x}")
                        if new:
                            res.v("C10/expected-answer-also-unexpected", f"{new}")
                    else:
                        nontrivial = True       # late or duplicate
                        apps_hit = sorted({a["app"] for a in new})
                        if apps_hit != [s_["app"]]:
                            res.v("C10/unexpected-answer/" + ("other-application" if apps_hit else "dropped"),
                                  f"late/duplicate answer for a request of application {s_['app']} reached handle_answer of {apps_hit}")
                    s_["answered"] = True
                else:
                    nontrivial = True
                    ids = {"hbh": f.h["hbh"], "e2e": (f.h["e2e"] + 0x100000) & 0xffffffff} if variant == "wrong-e2e" else \
                          {"hbh": (f.h["hbh"] + 0x123457) & 0xffffffff, "e2e": f.h["e2e"]}
                    done_before = [s["call"]["box"]["done"] for s in sends]
                    w.feed_msg(c, dict(ids, k="ANS", host=host, app=f.h["app_id"], code=f.code))
                    new = w.answers_seen[n_ans:]
                    if new:
                        res.v("C10/unknown-ids-delivered/handler", f"answer with {variant} reached handle_answer: {new}")
                    done_after = [s["call"]["box"]["done"] for s in sends]
                    woke = [j for j, (a, b) in enumerate(zip(done_before, done_after)) if b and not a]
                    if woke:
                        res.v("C10/unknown-ids-delivered/sender", f"answer with {variant} woke sender(s) {woke}")
            elif kind == "ADV":
                w.advance(ev[1])
            # timeouts: a sender whose deadline has passed without its answer must have TimeoutError
            for s_ in sends:
                box = s_["call"]["box"]
                if s_["frame"] is not None and not s_["answered"]:
                    if w.k.now > s_["t"] + s_["timeout"]:
                        if not box["done"] or not isinstance(box["exc"], TimeoutError):
                            res.v("C10/timeout-not-raised", f"sender e2e {s_['e2e']:#x}: done={box['done']} exc={box['exc']!r} after its timeout")
                    elif box["done"] and w.k.now < s_["t"] + s_["timeout"]:
                        res.v("C10/sender-returned-without-answer", f"sender e2e {s_['e2e']:#x}: result {box['result']!r} exc {box['exc']!r}")
        if W.monitor_threads(w):
            res.classes.append("cross:thread-died")
        res.nontrivial = nontrivial
        states = sorted({p["state"] for p in case["peers"]})
        res.classes += [f"npeers:{len(case['peers'])}", f"napps:{len(case['apps'])}", f"select:{case.get('select')}"] + \
                       [f"state:{s}" for s in states] + [f"sends:{min(len(sends), 4)}"]
        res.sample = {"case": case}
        return res
    finally:
        w.close()


NODE_REALM = W.NODE_REALM


@st.composite
def cases_strategy(draw):
    npeers = draw(st.integers(1, 4))
    peers = [{"realm": draw(st.sampled_from(["example", "example", "r2.example"])),
              "default": draw(st.integers(0, 3)) == 0,
              "state": draw(st.sampled_from(STATES))} for _ in range(npeers)]
    napps = draw(st.integers(1, 3))
    apps = []
    for a in range(napps):
        apps.append({"id": draw(st.sampled_from([4, 4, 16777238])),
                     "peers": draw(st.lists(st.integers(0, npeers - 1), max_size=npeers, unique=True)),
                     "realms": draw(st.sampled_from([None, None, ["r2.example"], ["extra.example"]])),
                     "kind": draw(st.sampled_from(["basic", "threading"]))})
    send = st.tuples(st.just("SEND"), st.integers(0, 2),
                     st.sampled_from(["example", "example", "r2.example", "extra.example", "nowhere.example", None]),
                     st.sampled_from([2, 5, 30]), st.booleans(), st.one_of(st.none(), st.none(), st.integers(0, 4)),
                     st.sampled_from([False, False, False, True]))
    ans = st.tuples(st.just("ANSWER"), st.integers(0, 5), st.sampled_from(["good", "good", "good", "wrong-e2e", "unknown-hbh"]))
    adv = st.tuples(st.just("ADV"), st.sampled_from([1, 3, 6]))
    events = draw(st.lists(st.one_of(send, send, ans, ans, adv), min_size=1, max_size=14))
    return {"peers": peers, "apps": apps, "select": draw(st.sampled_from([None, "first", "last"])),
            "seed": draw(st.integers(0, 7)), "yield_all": draw(st.booleans()),
            "events": [list(e) for e in events]}



def install_points():
    from dv import sched, simkernel as sk
    mods = sk.load_node()
    A, N, H = mods["application"].Application, mods["node"].Node, mods["_helpers"]
    sched.clear()
    return sched.install({A.send_request: None, N.route_request: None, H.SequenceGenerator.next_sequence: None})


def concurrent_senders(decisions, nthreads=2):
    """nthreads application threads call send_request towards one ready connection at the same time; the peer
    answers every request it received.  One schedule; returns (trace, problems)."""
    from dv import sched
    from diameter.message.commands import CreditControlRequest
    w = W.NodeWorld({"peers": [{"name": "peer1.example", "ip": ["10.1.1.1"]}],
                     "apps": [{"app_id": 4, "auth": True, "peers": [0], "handler": "answer"}],
                     "node_timers": {"idle": 5000, "dwa": 50, "cer": 50, "cea": 50, "wakeup": 5}})
    try:
        w.start()
        c = w.handshake_in("peer1.example", auth=[4], ip="10.1.1.1", hbh=0x100)
        app = w.apps[0]
        msgs = []
        for i in range(nthreads):
            m = CreditControlRequest()
            m.session_id = f"n;{i}"
            m.origin_host = W.NODE_HOST.encode()
            m.origin_realm = W.NODE_REALM.encode()
            m.destination_realm = W.NODE_REALM.encode()
            m.service_context_id = "x"
            m.cc_request_type = 1
            m.cc_request_number = i
            m.header.end_to_end_identifier = 0x5100 + i
            msgs.append(m)
        n0 = len(c.refresh())
        ex = sched.Explorer(decisions)
        sched.attach(w.k, ex)
        boxes = [w.k.spawn(lambda m=m: app.send_request(m, timeout=3), name=f"sender{i}") for i, m in enumerate(msgs)]
        ex.armed = True
        w.k.run()
        ex.armed = False
        w.k.run()
        problems = []
        reqs = [f for f in c.refresh()[n0:] if f.is_request and f.code == 272]
        hbhs = [f.h["hbh"] for f in reqs]
        if len(reqs) != nthreads:
            problems.append(("requests-written", f"{len(reqs)} requests on the wire for {nthreads} senders"))
        if len(set(hbhs)) != len(hbhs) or 0 in hbhs:
            problems.append(("hop-by-hop-not-unique", f"hop-by-hop identifiers of the outstanding requests: {[hex(h) for h in hbhs]}"))
        for f in reqs:
            w.feed_msg(c, {"k": "ANS", "host": "peer1.example", "hbh": f.h["hbh"], "e2e": f.h["e2e"]}, run=False)
        w.k.run()
        w.advance(4)
        for i, b in enumerate(boxes):
            want = 0x5100 + i
            if not b["done"]:
                problems.append(("sender-blocked", f"sender {i} still blocked after its answer and its timeout"))
            elif b["exc"] is not None:
                problems.append((f"sender-error/{type(b['exc']).__name__}", f"sender {i}: {b['exc']!r} although its answer was delivered"))
            elif b["result"] is None or b["result"].header.end_to_end_identifier != want:
                got = None if b["result"] is None else hex(b["result"].header.end_to_end_identifier)
                problems.append(("wrong-answer", f"sender {i} (end-to-end {want:#x}) was handed the answer {got}"))
        for sig, d in W.monitor_threads(w):
            problems.append((f"thread-died/{sig}", d))
        return ex.trace, problems
    finally:
        w.close()


def install_points_timeout():
    from dv import sched, simkernel as sk
    mods = sk.load_node()
    A, N = mods["application"].Application, mods["node"].Node
    sched.clear()
    # the sender after its wait, the reader thread delivering the answer, and the I/O thread handing the bytes over
    return sched.install({A.send_request: r"wait\(|raise|except|finally|del |return|answer", A.receive_answer: None,
                          N._handle_connections: r"add_in_bytes"})


def answer_vs_timeout(decisions):
    """The answer arrives in the instant in which the sender's timeout expires.  One schedule.  The sender gets the
    answer, or it times out and the answer goes to the unexpected-answer handler; the answer is never lost and no
    thread fails."""
    from dv import sched
    from diameter.message.commands import CreditControlRequest
    w = W.NodeWorld({"peers": [{"name": "peer1.example", "ip": ["10.1.1.1"]}],
                     "apps": [{"app_id": 4, "auth": True, "peers": [0], "handler": "answer"}],
                     "node_timers": {"idle": 5000, "dwa": 50, "cer": 50, "cea": 50, "wakeup": 50}})
    try:
        w.start()
        c = w.handshake_in("peer1.example", auth=[4], ip="10.1.1.1", hbh=0x100)
        app = w.apps[0]
        m = CreditControlRequest()
        m.session_id, m.origin_host, m.origin_realm = "n;1", W.NODE_HOST.encode(), W.NODE_REALM.encode()
        m.destination_realm, m.service_context_id = W.NODE_REALM.encode(), "x"
        m.cc_request_type, m.cc_request_number = 1, 0
        m.header.end_to_end_identifier = 0x5200
        n0 = len(c.refresh())
        ex = sched.Explorer(decisions)
        sched.attach(w.k, ex)
        fed = []

        def feeder():
            w.k.block(lambda: False, timeout=2)
            reqs = [f for f in c.refresh()[n0:] if f.is_request and f.code == 272]
            if reqs:
                fed.append(reqs[0])
                w.feed_msg(c, {"k": "ANS", "host": "peer1.example", "hbh": reqs[0].h["hbh"], "e2e": reqs[0].h["e2e"]}, run=False)
        w.k.spawn(feeder, name="feeder")            # created first: wakes before the sender at +2
        box = w.k.spawn(lambda: app.send_request(m, timeout=2), name="sender")
        w.k.run()
        n_ans = len(w.answers_seen)
        ex.armed = True
        w.k.advance(2)
        ex.armed = False
        w.k.run()
        w.advance(1)
        problems = []
        unexpected = [a for a in w.answers_seen[n_ans:]]
        if not fed:
            problems.append(("setup", "no request was written"))
        elif not box["done"]:
            problems.append(("sender-blocked", "send_request still blocked after its timeout"))
        elif box["exc"] is None:
            r = box["result"]
            if r is None or r.header.end_to_end_identifier != 0x5200:
                problems.append(("wrong-answer", f"sender was handed {r!r}"))
            if unexpected:
                problems.append(("answer-delivered-twice", f"sender got the answer and handle_answer saw {unexpected}"))
        elif isinstance(box["exc"], TimeoutError):
            if not unexpected:
                problems.append(("answer-lost", "the sender timed out and the answer that arrived in the same instant reached neither "
                                 "the sender nor handle_answer"))
        else:
            problems.append((f"sender-error/{type(box['exc']).__name__}", repr(box["exc"])))
        for sig, d in W.monitor_threads(w):
            problems.append((f"thread-died/{sig}", d))
        return ex.trace, problems
    finally:
        w.close()


def schedule_part_timeout(rec, shard, nshards, thorough):
    from dv import sched
    from dv.common import fp
    info = install_points_timeout()
    if shard == 0:
        rec.extra["preemption_functions_timeout"] = info
    holder = {}

    def run_one(dec):
        tr, problems = answer_vs_timeout(dec)
        holder["last"] = problems
        return tr
    n = 0
    for dec, trace in sched.enumerate_schedules(run_one, 3 if thorough else 2, shard, nshards):
        case = {"answer_vs_timeout": True, "schedule": {str(i): c for i, c in sorted(dec.items())}}
        for kind, detail in holder["last"]:
            rec.violation(f"C10/answer-vs-timeout/{kind}", case, detail)
        n += 1
        rec.case(fp("sched-timeout", tuple(sorted(dec.items()))) if dec else None,
                 ["schedule-exploration", "answer-vs-timeout", f"deviations:{len(dec)}"], sample=lambda: dict(case, choice_points=len(trace)))
    rec.extra["answer_vs_timeout_schedules"] = rec.extra.get("answer_vs_timeout_schedules", 0) + n


def install_points_prompt():
    from dv import sched, simkernel as sk
    mods = sk.load_node()
    A = mods["application"].Application
    sched.clear()
    # every line of the sender up to its wait, and the delivery of the answer
    return sched.install({A.send_request: None, A.receive_answer: None})


def prompt_answer(decisions):
    """The peer answers as soon as the request is on the wire - possibly before the sending thread has got any further
    than handing the request to the node.  The answer arrived well within the sender's timeout: the sender must get it,
    and nothing goes to the unexpected-answer handler."""
    from dv import sched
    from diameter.message.commands import CreditControlRequest
    w = W.NodeWorld({"peers": [{"name": "peer1.example", "ip": ["10.1.1.1"]}],
                     "apps": [{"app_id": 4, "auth": True, "peers": [0], "handler": "answer"}],
                     "node_timers": {"idle": 5000, "dwa": 50, "cer": 50, "cea": 50, "wakeup": 50}})
    try:
        w.start()
        c = w.handshake_in("peer1.example", auth=[4], ip="10.1.1.1", hbh=0x100)
        app = w.apps[0]
        m = CreditControlRequest()
        m.session_id, m.origin_host, m.origin_realm = "n;1", W.NODE_HOST.encode(), W.NODE_REALM.encode()
        m.destination_realm, m.service_context_id = W.NODE_REALM.encode(), "x"
        m.cc_request_type, m.cc_request_number = 1, 0
        m.header.end_to_end_identifier = 0x5300
        n0 = len(c.refresh())
        ex = sched.Explorer(decisions)
        sched.attach(w.k, ex)
        fed = []

        def on_wire():
            return [f for f in c.refresh()[n0:] if f.is_request and f.code == 272]

        def feeder():
            w.k.block(lambda: bool(on_wire()), timeout=4)
            reqs = on_wire()
            if reqs:
                fed.append(reqs[0])
                w.feed_msg(c, {"k": "ANS", "host": "peer1.example", "hbh": reqs[0].h["hbh"], "e2e": reqs[0].h["e2e"]}, run=False)
        for t in w.k.threads:                       # creation order: the node's threads, the feeder, the sender - so that
            w.k.creation_index[t]                   # by default the answer travels before a preempted sender carries on
        w.k.spawn(feeder, name="feeder")
        n_ans = len(w.answers_seen)
        ex.armed = True
        box = w.k.spawn(lambda: app.send_request(m, timeout=5), name="sender")
        w.k.run()
        ex.armed = False
        w.advance(6)
        problems = []
        unexpected = [a for a in w.answers_seen[n_ans:]]
        if not fed:
            problems.append(("setup", "no request was written"))
        elif not box["done"]:
            problems.append(("sender-blocked", "send_request still blocked after its timeout"))
        elif box["exc"] is None:
            r = box["result"]
            if r is None or r.header.end_to_end_identifier != 0x5300:
                problems.append(("wrong-answer", f"sender was handed {r!r}"))
            if unexpected:
                problems.append(("answer-delivered-twice", f"sender got the answer and handle_answer saw {unexpected}"))
        elif isinstance(box["exc"], TimeoutError):
            problems.append(("sender-timed-out", f"the answer arrived at once, the sender timed out after 5 s; handle_answer saw {unexpected}"))
        else:
            problems.append((f"sender-error/{type(box['exc']).__name__}", repr(box["exc"])))
        for sig, d in W.monitor_threads(w):
            problems.append((f"thread-died/{sig}", d))
        return ex.trace, problems
    finally:
        w.close()


def schedule_part_prompt(rec, shard, nshards, thorough):
    from dv import sched
    from dv.common import fp
    info = install_points_prompt()
    if shard == 0:
        rec.extra["preemption_functions_prompt_answer"] = info
    holder = {}

    def run_one(dec):
        tr, problems = prompt_answer(dec)
        holder["last"] = problems
        return tr
    n = 0
    for dec, trace in sched.enumerate_schedules(run_one, 3 if thorough else 2, shard, nshards):
        case = {"prompt_answer": True, "schedule": {str(i): c for i, c in sorted(dec.items())}}
        for kind, detail in holder["last"]:
            rec.violation(f"C10/prompt-answer/{kind}", case, detail)
        n += 1
        rec.case(fp("sched-prompt", tuple(sorted(dec.items()))) if dec else None,
                 ["schedule-exploration", "prompt-answer", f"deviations:{len(dec)}"], sample=lambda: dict(case, choice_points=len(trace)))
    rec.extra["prompt_answer_schedules"] = rec.extra.get("prompt_answer_schedules", 0) + n


def equal_hop_by_hop_on_two_connections(rec):
    """Hop-by-hop identifiers are unique per connection only.  With every sequence generator starting at the same
    value (an outcome of the real randomness, scripted here) two requests of one application that are outstanding
    on two connections carry the same hop-by-hop identifier: each sender must still get exactly its own answer."""
    from dv import simkernel as sk
    from dv.common import fp
    from diameter.message.commands import CreditControlRequest
    for start in (7, 0xfffffff0, 0xffffffff):
        for order in ((0, 1), (1, 0)):
            case = {"equal_generator_starts": start, "answer_order": list(order)}
            w = W.NodeWorld({"peers": [{"name": "peer1.example", "ip": ["10.1.1.1"], "realm": "r1.example"},
                                       {"name": "peer2.example", "ip": ["10.1.1.2"], "realm": "r2.example"}],
                             "apps": [{"app_id": 4, "auth": True, "peers": [0, 1], "handler": "answer"}],
                             "node_timers": {"idle": 5000, "dwa": 50, "cer": 50, "cea": 50, "wakeup": 5},
                             "rng": sk.EqualStartsRandom(start)})
            try:
                w.start()
                cs = [w.handshake_in(f"peer{i + 1}.example", auth=[4], ip=f"10.1.1.{i + 1}", hbh=0x100 + i) for i in range(2)]
                app = w.apps[0]
                calls = []
                for i, realm in enumerate(("r1.example", "r2.example")):
                    m = CreditControlRequest()
                    m.session_id, m.origin_host, m.origin_realm = f"n;{i}", W.NODE_HOST.encode(), W.NODE_REALM.encode()
                    m.destination_realm, m.service_context_id = realm.encode(), "x"
                    m.cc_request_type, m.cc_request_number = 1, i
                    calls.append(w.app_call(lambda m=m: app.send_request(m, timeout=3), name=f"sender{i}"))
                reqs = [[f for f in c.refresh() if f.is_request and f.code == 272] for c in cs]
                if not all(len(r) == 1 for r in reqs):
                    rec.violation("C10/equal-hop-by-hop/not-sent", case, f"requests on the wire: {[len(r) for r in reqs]}")
                    continue
                same = reqs[0][0].h["hbh"] == reqs[1][0].h["hbh"]
                for i in order:
                    f = reqs[i][0]
                    w.feed_msg(cs[i], {"k": "ANS", "host": f"peer{i + 1}.example", "hbh": f.h["hbh"], "e2e": f.h["e2e"]})
                w.advance(4)
                for i, call in enumerate(calls):
                    b = call["box"]
                    want = reqs[i][0].h["e2e"]
                    if not b["done"]:
                        rec.violation("C10/equal-hop-by-hop/sender-blocked", case, f"sender {i}")
                    elif b["exc"] is not None:
                        rec.violation(f"C10/equal-hop-by-hop/sender-error/{type(b['exc']).__name__}", case,
                                      f"sender {i}: {b['exc']!r} although its answer arrived (both requests carry hop-by-hop {reqs[i][0].h['hbh']:#x})")
                    elif b["result"].header.end_to_end_identifier != want:
                        rec.violation("C10/equal-hop-by-hop/wrong-answer", case,
                                      f"sender {i} (end-to-end {want:#x}) got the answer {b['result'].header.end_to_end_identifier:#x}")
                rec.case(fp("eqhbh", start, order) if same else None, ["equal-hop-by-hop-two-connections" if same else "hop-by-hop-differs"],
                         sample=lambda: dict(case, hop_by_hop=hex(reqs[0][0].h["hbh"])))
            finally:
                w.close()


def send_vs_loss(decisions, npeers=1):
    """send_request is called in the same instant in which the (only / chosen) peer's connection goes away.
    The outcome is a transmission, NotRoutable or a timeout - nothing else.  One schedule."""
    from dv import sched
    from diameter.message.commands import CreditControlRequest
    w = W.NodeWorld({"peers": [{"name": f"peer{i + 1}.example", "ip": [f"10.1.1.{i + 1}"]} for i in range(npeers)],
                     "apps": [{"app_id": 4, "auth": True, "peers": list(range(npeers)), "handler": "answer"}],
                     "node_timers": {"idle": 5000, "dwa": 50, "cer": 50, "cea": 50, "wakeup": 5}})
    try:
        NotRoutable = w.mods["node"].NotRoutable
        w.start()
        cs = [w.handshake_in(f"peer{i + 1}.example", auth=[4], ip=f"10.1.1.{i + 1}", hbh=0x100 + i) for i in range(npeers)]
        app = w.apps[0]
        m = CreditControlRequest()
        m.session_id, m.origin_host, m.origin_realm = "n;1", W.NODE_HOST.encode(), W.NODE_REALM.encode()
        m.destination_realm, m.service_context_id = W.NODE_REALM.encode(), "x"
        m.cc_request_type, m.cc_request_number = 1, 0
        ex = sched.Explorer(decisions)
        sched.attach(w.k, ex)
        cs[0].peer_closed = True

        def lose_and_send():
            cs[0].remote.close()
            return app.send_request(m, timeout=2)
        ex.armed = True
        box = w.k.spawn(lose_and_send, name="sender")
        w.k.run()
        ex.armed = False
        w.advance(4)
        problems = []
        if not box["done"]:
            problems.append(("sender-blocked", "send_request still blocked after its timeout"))
        elif box["exc"] is not None and not isinstance(box["exc"], (NotRoutable, TimeoutError)):
            problems.append((f"send-raised/{type(box['exc']).__name__}", repr(box["exc"])))
        for sig, d in W.monitor_threads(w):
            problems.append((f"thread-died/{sig}", d))
        return ex.trace, problems
    finally:
        w.close()


def slow_selection(case) -> Result:
    """The selection callback is the user's code and may take its time.  While it runs, connections of the offered
    peers are lost, redialled (persistent peers) and their capabilities exchange is answered or left open.  Whatever
    the callback returns, the request may only be written on a connection whose exchange the harness has completed
    and which it has not closed - or NotRoutable."""
    from diameter.message.commands import CreditControlRequest
    res = Result()
    n = case["npeers"]
    w = W.NodeWorld({"peers": [{"name": f"peer{i + 1}.example", "ip": [f"10.1.1.{i + 1}"], "persistent": True,
                                "reconnect_wait": case["reconnect_wait"]} for i in range(n)],
                     "apps": [{"app_id": 4, "auth": True, "peers": list(range(n)), "handler": "answer"}],
                     "node_timers": {"idle": 5000, "dwa": 50, "cer": 50, "cea": 50, "wakeup": 1}, "default_dial": "ok"})
    try:
        NotRoutable = w.mods["node"].NotRoutable
        w.start()
        cur = {}                   # peer index -> its latest connection
        ready_since = {}           # Conn -> time its 2001 CEA was fed
        closed_at = {}             # Conn -> time the harness closed it
        dpr_at = {}                # Conn -> time the harness sent a DPR on it
        pidx = lambda c: int(c.remote.addr[0].rsplit(".", 1)[1]) - 1

        def adopt():
            for c in w.conns:
                if c not in ready_since and c not in closed_at:
                    cur[pidx(c)] = c
        adopt()
        for i, c in sorted(cur.items()):
            if w.answer_cer(c, 2001, auth=(4,), host=f"peer{i + 1}.example") is not False:
                ready_since[c] = w.k.now
        offered = []

        def sel(node, app, message, peers):
            offered.append(sorted(p.node_name for p in peers))
            w.k.block(lambda: False, timeout=case["sleep"])
            order = sorted(peers, key=lambda p: p.node_name)
            return order[case["pick"] % len(order)]
        w.node.peer_route_select_func = sel
        m = CreditControlRequest()
        m.session_id, m.origin_host, m.origin_realm = "n;1", W.NODE_HOST.encode(), W.NODE_REALM.encode()
        m.destination_realm, m.service_context_id = W.NODE_REALM.encode(), "x"
        m.cc_request_type, m.cc_request_number = 1, 0
        m.header.end_to_end_identifier = 0x7001
        app = w.apps[0]
        t0 = w.k.now
        call = w.app_call(lambda: app.send_request(m, timeout=30), name="sender")
        touched = set()
        half = 0
        events = sorted(case["events"])
        while half <= 2 * case["sleep"] + 2:
            for t_half, kind, i in events:
                if t_half != half:
                    continue
                i %= n
                c = cur.get(i)
                if c is None:
                    continue
                if kind == "LOSE" and c not in closed_at:
                    closed_at[c] = w.k.now
                    touched.add(i)
                    w.peer_close(c)
                elif kind == "DPR" and c in ready_since and c not in closed_at and c not in dpr_at:
                    # the peer asks to disconnect (and gets its DPA) while the callback is still thinking
                    dpr_at[c] = w.k.now
                    touched.add(i)
                    w.feed_msg(c, {"k": "DPR", "host": f"peer{i + 1}.example", "hbh": 0xd00 + half, "e2e": 0xd00 + half})
                elif kind == "CEA" and c not in ready_since and c not in closed_at:
                    if w.answer_cer(c, 2001, auth=(4,), host=f"peer{i + 1}.example") is not False:
                        ready_since[c] = w.k.now
                        c.cea_t = w.k.now
            w.advance(0.5)
            adopt()
            half += 1
        box = call["box"]
        written = []
        for c in w.conns:
            for f in c.refresh():
                if f.is_request and f.code == 272 and f.h["e2e"] == 0x7001:
                    written.append((c, f))
        desc = f"selection took {case['sleep']} s, offered {offered}"
        if len(written) > 1:
            res.v("C10/sent-twice", f"{desc}: written on connections {[c.idx for c, _ in written]}")
        for c, f in written[:1]:
            # readiness by the harness's account: CEA fed no later than the write, not closed before it
            if c not in ready_since:
                res.v("C10/ineligible-peer/not-ready/after-slow-selection",
                      f"{desc}: request written at +{f.t - t0:.1f} on connection {c.idx} (peer {pidx(c)}) whose capabilities "
                      f"exchange has not been answered")
            elif c in dpr_at and dpr_at[c] < f.t:
                res.v("C10/ineligible-peer/disconnecting/after-slow-selection",
                      f"{desc}: request written at +{f.t - t0:.1f} on connection {c.idx} (peer {pidx(c)}), which had sent its DPR at +{dpr_at[c] - t0:.1f}")
            elif c in closed_at and closed_at[c] < f.t:
                res.v("C10/ineligible-peer/closed/after-slow-selection", f"{desc}: request written on a connection closed at +{closed_at[c] - t0:.1f}")
        if not written:
            if not (box["done"] and isinstance(box["exc"], NotRoutable)):
                res.v("C10/slow-selection/" + ("no-error" if box["done"] else "sender-blocked"),
                      f"{desc}: nothing written, outcome {box['exc']!r} done={box['done']}")
            elif offered and len(offered[0]) > 1:
                chosen = int(sorted(offered[0])[case["pick"] % len(offered[0])][4:].split(".")[0]) - 1
                if chosen not in touched:
                    res.v("C10/eligible-but-not-sent", f"{desc}: peer {chosen} was chosen and its connection never changed, got {box['exc']!r}")
        elif box["done"] and isinstance(box["exc"], NotRoutable):
            res.v("C10/not-routable-but-sent", f"{desc}: NotRoutable raised but the request was written")
        for sig, d in W.monitor_threads(w):
            res.v(f"C10/thread-died/{sig}", d)
        chosen_lost = bool(offered) and len(offered[0]) > 1 and \
            (int(sorted(offered[0])[case["pick"] % len(offered[0])][4:].split(".")[0]) - 1) in touched
        res.nontrivial = bool(touched)
        if dpr_at:
            res.classes.append("slow-selection:dpr-during-callback")
        res.classes += ["slow-selection", f"slow-selection:chosen-lost:{chosen_lost}",
                        "slow-selection:outcome:" + ("sent" if written else "not-routable"),
                        f"slow-selection:redialled:{len(w.conns) > n}"]
        res.sample = {"case": case}
        return res
    finally:
        w.close()


@st.composite
def slow_cases(draw):
    n = draw(st.integers(2, 3))
    sleep = draw(st.integers(1, 5))
    ev = draw(st.lists(st.tuples(st.integers(0, 2 * sleep + 1), st.sampled_from(["LOSE", "LOSE", "CEA", "DPR"]), st.integers(0, n - 1)),
                       min_size=1, max_size=5))
    return {"slow_select": True, "npeers": n, "sleep": sleep, "pick": draw(st.integers(0, 2)),
            "reconnect_wait": draw(st.integers(1, 2)), "events": [list(e) for e in ev]}


def schedule_part_loss(rec, shard, nshards, thorough):
    from dv import sched
    from dv.common import fp
    for npeers in (1, 2):
        holder = {}

        def run_one(dec, npeers=npeers):
            tr, problems = send_vs_loss(dec, npeers)
            holder["last"] = problems
            return tr
        n = 0
        for dec, trace in sched.enumerate_schedules(run_one, 2 if thorough else 1, shard, nshards):
            case = {"send_vs_loss": npeers, "schedule": {str(i): c for i, c in sorted(dec.items())}}
            for kind, detail in holder["last"]:
                rec.violation(f"C10/concurrent-loss/{kind}", case, detail)
            n += 1
            rec.case(fp("sched-loss", npeers, tuple(sorted(dec.items()))) if dec else None,
                     ["schedule-exploration", "send-vs-loss", f"deviations:{len(dec)}"], sample=lambda: dict(case, choice_points=len(trace)))
        rec.extra["send_vs_loss_schedules"] = rec.extra.get("send_vs_loss_schedules", 0) + n


def schedule_part(rec, shard, nshards, thorough):
    from dv import sched
    from dv.common import fp
    if shard == 1 % nshards:
        equal_hop_by_hop_on_two_connections(rec)
    info = install_points()
    if shard == 0:
        rec.extra["preemption_functions"] = info
    for nthreads, bound in ((2, 3 if thorough else 2), (3, 2 if thorough else 1)):
        holder = {}

        def run_one(dec, nthreads=nthreads):
            tr, problems = concurrent_senders(dec, nthreads)
            holder["last"] = problems
            return tr
        n = 0
        for dec, trace in sched.enumerate_schedules(run_one, bound, shard, nshards):
            case = {"concurrent_senders": nthreads, "schedule": {str(i): c for i, c in sorted(dec.items())}}
            for kind, detail in holder["last"]:
                rec.violation(f"C10/concurrent/{kind}", case, detail)
            n += 1
            rec.case(fp("sched", nthreads, tuple(sorted(dec.items()))) if dec else None,
                     ["schedule-exploration", f"senders:{nthreads}", f"deviations:{len(dec)}"],
                     sample=lambda: dict(case, choice_points=len(trace)))
        rec.extra[f"schedules_{nthreads}_senders"] = rec.extra.get(f"schedules_{nthreads}_senders", 0) + n


def shard_main(shard, nshards, tier, scale):
    rec = Recorder(PID)
    thorough = tier == "thorough"
    shrunk = set()
    schedule_part(rec, shard, nshards, thorough)
    schedule_part_loss(rec, shard, nshards, thorough)
    schedule_part_timeout(rec, shard, nshards, thorough)
    schedule_part_prompt(rec, shard, nshards, thorough)
    n = int((10000 if thorough else 800) * scale)

    def body(case):
        res = evaluate(case)
        record(rec, case, res, evaluate, "events", shrunk)
    hyp.run_given(cases_strategy(), body, n, derive_seed(PID, "rand", shard), rec=rec)

    def body_slow(case):
        res = slow_selection(case)
        record(rec, case, res, slow_selection, "events", shrunk)
    hyp.run_given(slow_cases(), body_slow, max(20, n // 8), derive_seed(PID, "slow", shard), rec=rec)
    return rec.dump()


def run(tier, scale=1.0):
    t0 = time.time()
    rec = Recorder(PID)
    for d in hyp.pool_run(shard_main, (tier, scale)):
        rec.merge(d)
    required = {"slow-selection:dpr-during-callback": 1, "hop-by-hop:set-by-caller": 1, "request:untyped": 1, "request:no-destination-realm": 1, "destination-host:a-peer": 1, "destination-host:not-a-peer": 1, "answer-vs-timeout": 1, "prompt-answer": 1, "slow-selection:chosen-lost:True": 1, "slow-selection:outcome:sent": 1, "slow-selection:outcome:not-routable": 1,
                "slow-selection:redialled:True": 1, "send-vs-loss": 1, "equal-hop-by-hop-two-connections": 1, "schedule-exploration": 1, "senders:3": 1, "npeers:4": 1, "napps:3": 1, "select:first": 1, "select:None": 1, "state:waiting-dwa": 1,
                "state:disconnecting": 1, "state:disconnecting-late-dwa": 1, "state:awaiting": 1, "state:closed": 1, "sends:4": 1}
    return finish(rec, tier=tier, level="exploration", rule=RULE, assumptions=ASSUME, t0=t0,
                  required_classes=required)


def replay(doc):
    case = doc["case"]
    if "concurrent_senders" in case:
        install_points()
        _, problems = concurrent_senders({int(i): c for i, c in case["schedule"].items()}, case["concurrent_senders"])
        sigs = [f"C10/concurrent/{k}" for k, _ in problems]
        if doc["signature"] in sigs:
            print(f"  replayed: {problems[0][1][:300]}")
            print(f"VIOLATION property={PID} replay=(replay)")
            return 1
        print(f"[{PID}] replay: signature {doc['signature']} does not reproduce (got {sigs})")
        return 0
    if case.get("answer_vs_timeout"):
        install_points_timeout()
        _, problems = answer_vs_timeout({int(i): c for i, c in case["schedule"].items()})
        sigs = [f"C10/answer-vs-timeout/{k}" for k, _ in problems]
        if doc["signature"] in sigs:
            print(f"  replayed: {problems[0][1][:300]}")
            print(f"VIOLATION property={PID} replay=(replay)")
            return 1
        print(f"[{PID}] replay: signature {doc['signature']} does not reproduce (got {sigs})")
        return 0
    if case.get("prompt_answer"):
        install_points_prompt()
        _, problems = prompt_answer({int(i): c for i, c in case["schedule"].items()})
        sigs = [f"C10/prompt-answer/{k}" for k, _ in problems]
        if doc["signature"] in sigs:
            print(f"  replayed: {problems[0][1][:300]}")
            print(f"VIOLATION property={PID} replay=(replay)")
            return 1
        print(f"[{PID}] replay: signature {doc['signature']} does not reproduce (got {sigs})")
        return 0
    if case.get("slow_select"):
        return generic_replay(PID, slow_selection, doc)
    return generic_replay(PID, evaluate, doc)
