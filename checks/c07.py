"""C07 -- each transmitted answer answers exactly one received request, never an answer.

Histories of well-formed and deliberately defective requests and answers on
1..3 connections (inbound and outbound) in every connection state; oracle = the
transcript monitor dv.world.monitor_answers (pure function of the frames read
from and written to every virtual socket).
"""
from __future__ import annotations

import itertools
import time

from hypothesis import strategies as st

from dv import hyp, world as W
from dv.common import derive_seed
from dv.evidence import Recorder, finish
from checks.nodecommon import Result, record, generic_replay

PID = "C07"
RULE = ("histories over 37 event symbols x 1..3 connections (conn 0 optionally outbound): handshakes, "
        "good requests, requests with a missing required AVP / unknown command / unknown application / "
        "foreign realm / no Destination-Realm / a routing-relevant AVP (Origin-Host, Origin-Realm, Destination-Realm, Destination-Host, Session-Id) repeated in a typed or untyped command, requests / DWR / DPR whose Origin-Host is not UTF-8, T-flagged repeats, answers nobody waits for, answers "
        "lacking Origin-Host or Result-Code (CEA, DWA, DPA, application), requests held by the application and "
        "answered later, requests whose handler answers and then raises, requests answered with Experimental-Result instead of Result-Code (also after the connection was lost and re-established, with the peer spelling its "
        "identity in another case), node-originated requests with "
        "good/defective replies, DWR/DPR, pairs of messages whose first read ends inside the second one, clock advances; all sequences to depth 3 on a ready connection "
        "are enumerated, deeper ones (to 14) drawn by Hypothesis. Non-trivial: the history contains a "
        "defective answer or a request that takes an error path; distinct by script.")
ASSUME = ["identifier values 0 and 2^32-1 are valid and are used (each special key once per connection)",
          "hop-by-hop ids are unique per connection among requests in flight (the generator numbers them)",
          "an answer matches a request by (command code, application id, hop-by-hop, end-to-end) on the same connection",
          "frames count as received once fed completely; evaluation at quiescent points"]

SYMS = ["HS", "REQ", "REQ_missing", "REQ_unknown_cmd", "REQ_unknown_app", "REQ_foreign_realm", "REQ_no_realm",
        "REQ_T", "REQ_raise", "ANS_stray", "ANS_no_origin", "ANS_no_result", "CEA_no_origin", "CEA_stray",
        "DWA_stray", "DWA_no_origin", "DPA_stray", "DPA_no_result", "DWR", "DPR", "NODE_REQ", "NODE_REQ_ANS",
        "ADV2", "ADV_IDLE", "REQ_hold", "SUBMIT", "RECONNECT", "REQ2_seg", "DWR_REQ_seg", "REQ_DWR_seg", "REQ_exp_result", "REQ_dup_avp", "REQ_dup_avp_T", "REQ_non_utf8_origin", "DWR_non_utf8_origin", "DPR_non_utf8_origin", "REQ_answer_then_raise", "REQ_hold_then_raise", "HS_bad_host_ip",
        "DWA_T_echo", "ANS_T_echo"]
DEFECTIVE = {"DWA_T_echo", "ANS_T_echo", "ANS_stray", "ANS_no_origin", "ANS_no_result", "CEA_no_origin", "CEA_stray", "DWA_stray",
             "DWA_no_origin", "DPA_stray", "DPA_no_result", "REQ_missing", "REQ_unknown_cmd", "REQ_unknown_app",
             "REQ_foreign_realm", "REQ_no_realm", "REQ_raise", "REQ_T", "REQ_dup_avp", "REQ_dup_avp_T", "REQ_non_utf8_origin", "DWR_non_utf8_origin", "DPR_non_utf8_origin"}


def world_cfg(case):
    out0 = case.get("out0", False)
    peers = [{"name": f"peer{i + 1}.example", "ip": [f"10.1.1.{i + 1}"],
              "persistent": bool(out0 and i == 0), "reconnect_wait": 1} for i in range(3)]
    apps = [{"app_id": 4, "auth": True, "peers": [0, 1, 2], "kind": case.get("app_kind", "basic"),
             "handler_plan": ["answer", "answer", "raise", "answer"] if case.get("app_kind") != "threading" else None,
             "handler": "answer"}]
    return {"peers": peers, "apps": apps, "node_timers": {"idle": 8, "dwa": 3, "cer": 4, "cea": 4, "wakeup": 2},
            "default_dial": "ok", "sched_seed": case.get("seed", 0), "yield_all": case.get("yield_all", False),
            **({"retransmit_queue_size": case["window"]} if case.get("window") else {})}


def evaluate(case) -> Result:
    from diameter.message.commands import CreditControlRequest
    res = Result()
    w = W.NodeWorld(world_cfg(case))
    hbh = [0x1000]

    def nid():
        hbh[0] += 1
        return hbh[0]
    defect = False
    try:
        w.start()
        nconn = case.get("nconn", 1)
        conns = []
        if case.get("out0"):
            conns.append(w.conns[0] if w.conns else None)
        while len(conns) < nconn:
            c = w.accept(f"10.1.1.{len(conns) + 1}")
            conns.append(c)
        hs = [False] * nconn
        names = {i: f"peer{i + 1}.example" for i in range(3)}
        if case.get("out0"):
            names[0] = case.get("name0", "peer1.example")    # the peer's own spelling of its identity (case-insensitive)
        held = []
        hold_ids = set()
        base_beh = w.apps[0]._verif_cfg.get("handler_plan")

        exp_ids = set()
        after_ids = set()
        holdraise_ids = set()

        def beh(rec_):
            if rec_["hbh"] in hold_ids:
                return "hold"
            if rec_["hbh"] in exp_ids:
                return "answer-experimental"
            if rec_["hbh"] in after_ids and case.get("app_kind") != "threading":
                return "answer-then-raise"
            if rec_["hbh"] in holdraise_ids and case.get("app_kind") != "threading":
                return "hold-then-raise"
            return None
        w.behaviour_fn = beh
        last_req = {}
        last_dwr = {}
        pending_node_req = {}
        used_special = set()
        for ev in case["events"]:
            ci, s = ev[0], ev[1]
            idmode = ev[2] if len(ev) > 2 else None
            if ci >= nconn or conns[ci] is None:
                continue
            c = conns[ci]
            host = names[ci]
            i = nid()
            base = {"hbh": i, "e2e": i, "host": host}
            if idmode == "e2e-repeat" and s not in ("HS", "NODE_REQ", "NODE_REQ_ANS", "REQ_T"):
                # an origin re-using an end-to-end identifier under a new hop-by-hop identifier (a watchdog sent with a
                # fixed value, a request repeated without the T flag): with small retransmission windows the same value
                # sits in the window of answered ids more than once
                base["e2e"] = 0x7e2e
                res.classes.append("ids:e2e-repeat")
            elif idmode and (ci, s, idmode) not in used_special and s not in ("HS", "NODE_REQ", "NODE_REQ_ANS", "REQ_T"):
                # boundary identifiers (0 and 2^32-1 are valid values); each special key once per connection
                used_special.add((ci, s, idmode))
                if idmode == "zero-hbh":
                    base["hbh"] = 0
                elif idmode == "zero-e2e":
                    base["e2e"] = 0
                elif idmode == "both-zero" and (ci, "bz") not in used_special:
                    used_special.add((ci, "bz"))
                    base["hbh"] = base["e2e"] = 0
                elif idmode == "max":
                    base["hbh"] = 0xffffffff
                res.classes.append(f"ids:{idmode}")
            if s == "HS":
                if hs[ci]:
                    continue
                hs[ci] = True
                if c.remote.direction == "out":
                    w.answer_cer(c, 2001, auth=(4,), host=host)
                else:
                    w.feed_msg(c, dict(base, k="CER", auth=[4]))
            elif s == "HS_bad_host_ip":
                # a CER with every mandatory AVP present, whose Host-IP-Address cannot be decoded (IPv4 family, three
                # address octets): whatever the node answers, it answers once
                if hs[ci] or c.remote.direction == "out":
                    continue
                hs[ci] = True
                w.feed_msg(c, dict(base, k="CER", auth=[4], host_ip_raw=["00010a0101", "0002" + "00" * 5, "00010a01010101"][i % 3]))
                res.classes.append("cer:undecodable-host-ip")
            elif s == "REQ":
                w.feed_msg(c, dict(base, k="REQ"))
                last_req[ci] = i
            elif s == "REQ_T":
                j = last_req.get(ci, i)
                w.feed_msg(c, dict(base, k="REQ", T=True, e2e=j))
            elif s == "REQ_raise":
                w.feed_msg(c, dict(base, k="REQ"))
            elif s == "REQ_answer_then_raise":
                # the handler submits its answer and raises afterwards: the request has been answered
                after_ids.add(base["hbh"])
                w.feed_msg(c, dict(base, k="REQ"))
            elif s == "REQ_hold_then_raise":
                # the handler hands the request to a worker and raises: the node answers 5012; the worker's
                # answer (a later SUBMIT) is a second answer for the same request
                holdraise_ids.add(base["hbh"])
                n_seen = len(w.requests_seen)
                w.feed_msg(c, dict(base, k="REQ"))
                w.run()
                held += [r for r in w.requests_seen[n_seen:] if r["hbh"] == base["hbh"] and r.get("behaviour") == "hold-then-raise"]
            elif s == "REQ_exp_result":
                # the application answers with Experimental-Result instead of Result-Code (RFC 6733 7.6)
                exp_ids.add(base["hbh"])
                w.feed_msg(c, dict(base, k="REQ"))
            elif s == "REQ_missing":
                w.feed_msg(c, dict(base, k="REQ", bare=True))
            elif s == "REQ_unknown_cmd":
                w.feed_msg(c, dict(base, k="REQ", code=999, bare=True))
            elif s in ("REQ_dup_avp", "REQ_dup_avp_T"):
                # malformed but decodable: a routing-relevant AVP occurs twice more, in a typed command or in one
                # without a python class (where a repeated AVP becomes a list attribute)
                from dv import refcodec as R_
                code_, val_ = [(264, host.encode()), (296, b"example"), (283, b"example"), (293, W.NODE_HOST.encode()),
                               (263, b"s;1")][i % 5]
                dup = R_.enc_avp(code_, 0, 0x40, val_).hex()
                untyped = (i // 5) % 2 == 0
                res.classes.append(f"dup-avp:{code_}:{'untyped' if untyped else 'typed'}")
                w.feed_msg(c, dict(base, k="REQ", extra=[dup, dup], T=s.endswith("_T"), **({"code": 999} if untyped else {})))
            elif s in ("REQ_non_utf8_origin", "DWR_non_utf8_origin", "DPR_non_utf8_origin"):
                # DiameterIdentity is an OctetString on the wire: octets that are not UTF-8 decode without complaint
                bad = b"client\xff\xfe." + host.encode()
                w.feed_msg(c, dict(base, k=s.split("_")[0], host=bad))
            elif s == "REQ_unknown_app":
                w.feed_msg(c, dict(base, k="REQ", app=9999))
            elif s == "REQ_foreign_realm":
                w.feed_msg(c, dict(base, k="REQ", dest_realm="elsewhere.example"))
            elif s == "REQ_no_realm":
                w.feed_msg(c, dict(base, k="REQ", no_dest_realm=True))
            elif s == "ANS_stray":
                w.feed_msg(c, dict(base, k="ANS"))
            elif s == "ANS_no_origin":
                w.feed_msg(c, dict(base, k="ANS", no_origin=True))
            elif s == "ANS_no_result":
                w.feed_msg(c, dict(base, k="ANS", no_result=True))
            elif s == "CEA_no_origin":
                w.feed_msg(c, dict(base, k="CEA", no_origin=True, auth=[4]))
            elif s == "CEA_stray":
                w.feed_msg(c, dict(base, k="CEA", auth=[4]))
            elif s == "DWA_stray":
                w.feed_msg(c, dict(base, k="DWA"))
            elif s == "DWA_no_origin":
                w.feed_msg(c, dict(base, k="DWA", no_origin=True, no_result=True))
            elif s == "DPA_stray":
                w.feed_msg(c, dict(base, k="DPA"))
            elif s == "DPA_no_result":
                w.feed_msg(c, dict(base, k="DPA", no_result=True, no_origin=True))
            elif s in ("REQ2_seg", "DWR_REQ_seg", "REQ_DWR_seg"):
                # two messages whose first read ends 20..40 bytes into the second one
                j = nid()
                k1, k2 = {"REQ2_seg": ("REQ", "REQ"), "DWR_REQ_seg": ("DWR", "REQ"), "REQ_DWR_seg": ("REQ", "DWR")}[s]
                m1 = W.build_msg(dict(base, k=k1))
                m2 = W.build_msg({"hbh": j, "e2e": j, "host": host, "k": k2})
                w.feed(c, m1 + m2, cuts=[len(m1) + 20 + (i % 3) * 10])
                res.classes.append("segmented-read")
            elif s == "DWR":
                w.feed_msg(c, dict(base, k="DWR"))
                last_dwr[ci] = base["e2e"]
            elif s in ("DWA_T_echo", "ANS_T_echo"):
                # a received *answer* carrying the T flag and the end-to-end id of a request of this origin that the node
                # has answered (header bits of an answer are the sender's business; the node answers requests only)
                j = last_dwr.get(ci) if s == "DWA_T_echo" else last_req.get(ci)
                w.feed_msg(c, dict(base, k="DWA" if s == "DWA_T_echo" else "ANS", flags=0x10 if s == "DWA_T_echo" else 0x50,
                                   e2e=j if j is not None else base["e2e"]))
                if j is not None:
                    res.classes.append("answer:t-flag-echoing-answered-id")
            elif s == "DPR":
                w.feed_msg(c, dict(base, k="DPR"))
            elif s == "NODE_REQ":
                app = w.apps[0]
                msg = CreditControlRequest()
                msg.session_id = "n;1"
                msg.origin_host = W.NODE_HOST.encode()
                msg.origin_realm = W.NODE_REALM.encode()
                msg.destination_realm = W.NODE_REALM.encode()
                msg.service_context_id = "x"
                msg.cc_request_type = 1
                msg.cc_request_number = 0
                w.app_call(lambda: app.send_request(msg, timeout=3), name="sender")
                pending_node_req[ci] = True
            elif s == "NODE_REQ_ANS":
                # answer the newest request the node wrote on this connection
                c.refresh()
                reqs = [f for f in c.out if f.is_request and f.code == 272]
                if reqs:
                    f = reqs[-1]
                    w.feed_msg(c, {"k": "ANS", "host": host, "hbh": f.h["hbh"], "e2e": f.h["e2e"]})
            elif s == "REQ_hold":
                hold_ids.add(i)
                n_seen = len(w.requests_seen)
                w.feed_msg(c, dict(base, k="REQ"))
                w.run()
                held += [r for r in w.requests_seen[n_seen:] if r["hbh"] == base["hbh"]]
            elif s == "SUBMIT":
                if held:
                    w.submit_answer(held.pop(0))
            elif s == "RECONNECT":
                if not hs[ci] or c.node_closed:
                    continue
                w.peer_close(c)
                if c.remote.direction == "out":
                    newc = None
                    for _ in range(4):
                        w.advance(1)
                        cands = [x for x in w.conns if x.remote.direction == "out" and not x.node_closed and not x.peer_closed and x.host is None]
                        if cands:
                            newc = cands[-1]
                            w.answer_cer(newc, 2001, auth=(4,), host=host)
                            break
                    conns[ci] = newc
                else:
                    conns[ci] = w.handshake_in(host, auth=[4], ip=f"10.1.1.{ci + 1}", hbh=nid())
            elif s == "ADV2":
                w.advance(2)
            elif s == "ADV_IDLE":
                w.advance(11)
            if s in DEFECTIVE:
                defect = True
        w.advance(4)
        for kind, ci, detail in W.monitor_answers(w):
            res.v(f"C07/{kind}", detail + " | " + str([x for x in w.summary() if x["conn"] == ci]))
        cross = W.monitor_threads(w)
        if cross:
            res.classes.append("cross:thread-died")
        res.nontrivial = defect
        res.classes += [f"nconn:{nconn}", f"window:{case.get('window')}", f"app:{case.get('app_kind', 'basic')}", f"out0:{bool(case.get('out0'))}",
                        "defective" if defect else "clean"]
        for e_ in case["events"]:
            res.classes.append(f"sym:{e_[1]}")
        res.sample = {"case": case, "transcript": w.summary()}
        return res
    finally:
        w.close()


def install_points():
    from dv import sched, simkernel as sk
    mods = sk.load_node()
    N = mods["node"].Node
    return sched.install({N._record_answer: None, N._receive_message: r"_origin_waiting_answer"})


def same_ids_two_connections(decisions, kind="DWR"):
    """Two connections receive, in the same instant, requests with the same hop-by-hop and end-to-end identifiers
    (both are unique per connection / per origin only): the two reader threads answer concurrently.  One schedule."""
    from dv import sched
    w = W.NodeWorld({"peers": [{"name": f"peer{i + 1}.example", "ip": [f"10.1.1.{i + 1}"]} for i in range(2)],
                     "apps": [{"app_id": 4, "auth": True, "peers": [0, 1], "handler": "answer"}],
                     "node_timers": {"idle": 5000, "dwa": 50, "cer": 50, "cea": 50, "wakeup": 5}})
    try:
        w.start()
        conns = [w.handshake_in(f"peer{i + 1}.example", auth=[4], ip=f"10.1.1.{i + 1}", hbh=0x100 + i) for i in range(2)]
        ex = sched.Explorer(decisions)
        sched.attach(w.k, ex)
        for i, c in enumerate(conns):
            w.feed_msg(c, {"k": kind, "host": f"peer{i + 1}.example", "hbh": 0x4242, "e2e": 0x4242}, run=False)
        ex.armed = True
        w.k.run()
        ex.armed = False
        w.advance(1)
        problems = [(k_, f"conn {ci}: {d}") for k_, ci, d in W.monitor_answers(w)]
        for i, c in enumerate(conns):
            n = len([f for f in c.refresh() if not f.is_request and f.h["hbh"] == 0x4242])
            if n != 1:
                problems.append(("answer-count", f"conn {i}: {n} answers for its one request"))
        for sig, d in W.monitor_threads(w):
            problems.append((f"thread-died/{sig}", d))
        return ex.trace, problems
    finally:
        w.close()


def schedule_part(rec, shard, nshards, thorough):
    from dv import sched
    from dv.common import fp
    info = install_points()
    if shard == 0:
        rec.extra["preemption_functions"] = info
    for kind in ("DWR", "REQ"):
        holder = {}

        def run_one(dec, kind=kind):
            tr, problems = same_ids_two_connections(dec, kind)
            holder["last"] = problems
            return tr
        n = 0
        for dec, trace in sched.enumerate_schedules(run_one, 3 if thorough else 2, shard, nshards):
            case = {"same_ids_two_connections": kind, "schedule": {str(i): c for i, c in sorted(dec.items())}}
            for k_, detail in holder["last"]:
                rec.violation(f"C07/concurrent-same-ids/{k_}", case, detail)
            n += 1
            rec.case(fp("sched", kind, tuple(sorted(dec.items()))) if dec else None, ["schedule-exploration", f"deviations:{len(dec)}"],
                     sample=lambda: dict(case, choice_points=len(trace)))
        rec.extra["same_ids_schedules"] = rec.extra.get("same_ids_schedules", 0) + n


def shard_main(shard, nshards, tier, scale):
    rec = Recorder(PID)
    thorough = tier == "thorough"
    shrunk = set()
    schedule_part(rec, shard, nshards, thorough)
    jobs = []
    depth = 3 if thorough else 2
    core = [s for s in SYMS if s != "HS"]
    for out0 in (False, True):
        for d in range(1, depth + 1):
            for seq in itertools.product(core, repeat=d):
                jobs.append({"nconn": 1, "out0": out0, "events": [[0, "HS"]] + [[0, s] for s in seq]})
                if d == 1:
                    for m in ("zero-hbh", "zero-e2e", "both-zero", "max"):
                        jobs.append({"nconn": 1, "out0": out0, "events": [[0, "HS"], [0, seq[0], m]]})
                if d <= 2:      # also before the handshake
                    jobs.append({"nconn": 1, "out0": out0, "events": [[0, s] for s in seq] + [[0, "HS"], [0, "REQ"]]})
    for out0 in (False, True):
        for name0 in ("peer1.example", "Peer1.Example"):
            for mid in ([], [[0, "REQ"]], [[0, "DWR"]]):
                jobs.append({"nconn": 1, "out0": out0, "name0": name0,
                             "events": [[0, "HS"], [0, "REQ_hold"]] + mid + [[0, "RECONNECT"], [0, "SUBMIT"], [0, "REQ"]]})
    # a repeated end-to-end id inside retransmission windows of 1..3 answers, then enough answers to push both copies out
    for window in (1, 2, 3):
        for sym in ("REQ", "DWR"):
            for later in ("REQ", "DWR"):
                for k in (2, 3):
                    jobs.append({"nconn": 1, "out0": False, "window": window,
                                 "events": [[0, "HS"]] + [[0, sym, "e2e-repeat"]] * k + [[0, later]] * (window + 2)})
    if shard == 0:
        rec.extra["enumerated_histories"] = len(jobs)
    for case in jobs[shard::nshards]:
        res = evaluate(case)
        res.classes = [c for c in res.classes if not c.startswith("sym:")] + ["enumerated"]
        record(rec, case, res, evaluate, "events", shrunk)
    n = int((8000 if thorough else 500) * scale)

    @st.composite
    def cases(draw):
        nconn = draw(st.integers(1, 3))
        ev = draw(st.lists(st.tuples(st.integers(0, nconn - 1), st.sampled_from(SYMS),
                                     st.sampled_from([None, None, None, "zero-hbh", "zero-e2e", "both-zero", "max", "e2e-repeat", "e2e-repeat"])),
                           min_size=1, max_size=14))
        return {"nconn": nconn, "window": draw(st.sampled_from([None, None, 1, 2, 3])), "out0": draw(st.booleans()), "app_kind": draw(st.sampled_from(["basic", "threading"])),
                "name0": draw(st.sampled_from(["peer1.example", "Peer1.Example", "PEER1.example"])),
                "seed": draw(st.integers(0, 7)), "yield_all": draw(st.booleans()),
                "events": [[c, s, m] for c, s, m in ev]}

    def body(case):
        res = evaluate(case)
        res.classes.append("random")
        record(rec, case, res, evaluate, "events", shrunk)
    hyp.run_given(cases(), body, n, derive_seed(PID, "rand", shard), rec=rec)

    # (b) the generators of the sibling properties with this property's monitor armed: retransmission windows of every
    # size with repeated end-to-end ids (C17), watchdog and disconnect exchanges over long clocks (C11, C12), answers
    # submitted around faults (C09)
    from checks import c13 as _c13
    import importlib
    m = int((1500 if thorough else 120) * scale)
    for name in ("c17", "c11", "c12", "c09"):
        mod = importlib.import_module(f"checks.{name}")
        strat = _c13.machine_strategy(name, mod)
        if strat is None:
            continue

        def mbody(inner, name=name):
            case = {"machine": name, "case": inner}
            res = evaluate_machine(case)
            record(rec, case, res)
        hyp.run_given(strat, mbody, m, derive_seed(PID, "machine", name, shard), rec=rec)
    return rec.dump()


def evaluate_machine(case) -> Result:
    """A case of a sibling property's generator, judged by this property's transcript monitor alone."""
    import importlib
    res = Result()
    mod = importlib.import_module(f"checks.{case['machine']}")
    worlds = []

    def hook(w, label):
        if not any(w is x for x in worlds):
            worlds.append(w)
    W.STEP_HOOKS.append(hook)
    try:
        mod.evaluate(case["case"])
    finally:
        W.STEP_HOOKS.remove(hook)
    for w in worlds:
        for kind, ci, detail in W.monitor_answers(w):
            res.v(f"C07/{kind}", f"[{case['machine']} machine] " + detail)
    res.classes.append(f"machine:{case['machine']}")
    res.nontrivial = True
    res.sample = case
    return res


def run(tier, scale=1.0):
    t0 = time.time()
    rec = Recorder(PID)
    for d in hyp.pool_run(shard_main, (tier, scale)):
        rec.merge(d)
    required = {f"sym:{s}": 1 for s in SYMS} | {"machine:c17": 1, "machine:c11": 1, "machine:c12": 1, "machine:c09": 1, "schedule-exploration": 1, "dup-avp:264:untyped": 1, "dup-avp:283:untyped": 1, "dup-avp:264:typed": 1, "ids:zero-hbh": 1, "ids:e2e-repeat": 1, "answer:t-flag-echoing-answered-id": 1, "window:2": 1, "ids:zero-e2e": 1, "ids:both-zero": 1, "nconn:3": 1, "app:threading": 1, "out0:True": 1, "defective": 1}
    return finish(rec, tier=tier, level="exploration", rule=RULE, assumptions=ASSUME, t0=t0,
                  required_classes=required)


def replay(doc):
    if "same_ids_two_connections" in doc["case"]:
        install_points()
        _, problems = same_ids_two_connections({int(i): c for i, c in doc["case"]["schedule"].items()}, doc["case"]["same_ids_two_connections"])
        sigs = [f"C07/concurrent-same-ids/{k}" for k, _ in problems]
        if doc["signature"] in sigs:
            print(f"  replayed: {problems[0][1][:300]}")
            print(f"VIOLATION property={PID} replay=(replay)")
            return 1
        print(f"[{PID}] replay: signature {doc['signature']} does not reproduce (got {sigs})")
        return 0
    return _replay_history(doc)


def _replay_history(doc):
    if doc["case"].get("machine"):
        return generic_replay(PID, evaluate_machine, doc)
    return generic_replay(PID, evaluate, doc)
