"""C06 -- capabilities exchange gates all traffic and yields the specified outcome.

Histories over the alphabet {CER known/unknown/no-common-app/relay, CEA
2001/3xxx/5xxx, DWR, DWA, DPR, DPA, application request/answer, clock advance}
on an inbound or an outbound connection of a real node in the simulation.
Reference model: per connection {awaiting-CE, ready, rejected, closed};
expected frames, callbacks, readiness and timeout windows are derived from the
configuration alone.  All sequences up to a depth are enumerated, deeper ones
are drawn by Hypothesis.
"""
from __future__ import annotations

import itertools
import time

from hypothesis import strategies as st

from dv import hist, hyp, world as W
from dv.common import derive_seed, fp
from dv.evidence import Recorder, finish
from checks.nodecommon import Result, record, generic_replay

PID = "C06"
RULE = ("histories = (configuration, direction, symbol sequence) over 15 (inbound) / 13 (outbound) event "
        "symbols; every sequence up to depth 3 (quick) / 4 (thorough) is enumerated for the base "
        "configurations (at most one CER per connection, nothing after the node closed the socket), "
        "deeper sequences (to 12) and configuration variants are drawn by Hypothesis. Non-trivial: a "
        "non-CE frame precedes the handshake, or the outcome is a rejection or a timeout; distinct by "
        "(configuration, direction, sequence).")
ASSUME = ["at most one CER per connection (RFC 6733 5.3; behaviour after a second one is unspecified)",
          "each configured peer is used on at most one connection (second connections are C13's subject)",
          "timer reference = the instant the connection was accepted / the dial completed and the CER was sent (the documented meaning "
          "of cer_timeout / cea_timeout); bytes that are not the expected CER / CEA do not extend the wait; "
          "safety: not closed while int(now)-int(ref) <= T, promptness: closed by ref + T + wakeup + 1",
          "outbound connects complete at the instant of the dial unless the case says otherwise (connect_delay)",
          "routing is probed with Node.route_request (public API), not by sending"]

CONFIGS = [
    # name, apps, peers, node timers, peer timers (for peer1)
    {"name": "auth4", "apps": [{"app_id": 4, "auth": True, "peers": [0]}],
     "peers": 1, "timers": {"cer": 4, "cea": 4, "wakeup": 2}, "ptimers": {}},
    {"name": "auth4+acct3/peer-timers", "apps": [{"app_id": 4, "auth": True, "peers": [0, 1]},
                                                 {"app_id": 3, "acct": True, "auth": False, "peers": [0]}],
     "peers": 2, "timers": {"cer": 3, "cea": 6, "wakeup": 1}, "ptimers": {"cer": 7, "cea": 2}},
    {"name": "no-apps", "apps": [], "peers": 1, "timers": {"cer": 2, "cea": 2, "wakeup": 3}, "ptimers": {}},
    {"name": "three-peers/wakeup6", "apps": [{"app_id": 4, "auth": True, "peers": [0, 1, 2]}],
     "peers": 3, "timers": {"cer": 5, "cea": 5, "wakeup": 6}, "ptimers": {"cea": 9}},
    # the peer is CONFIGURED with upper-case letters in its name (DiameterIdentity is case-insensitive)
    {"name": "auth4/configured-name-mixed-case", "apps": [{"app_id": 4, "auth": True, "peers": [0]}],
     "peers": 1, "timers": {"cer": 4, "cea": 4, "wakeup": 2}, "ptimers": {}, "configured_names": ["Peer1.EXAMPLE"]},
    # the peers are default peers of their realm (add_peer(..., is_default=True))
    {"name": "auth4/default-peers", "apps": [{"app_id": 4, "auth": True, "peers": [0]}],
     "peers": 2, "timers": {"cer": 4, "cea": 4, "wakeup": 2}, "ptimers": {}, "default_peers": True},
]
SYMS_IN = ["CER_known", "CER_known_case", "CER_unknown", "CER_nocommon", "CER_relay", "CEA_2001", "CEA_3xxx", "CEA_5xxx",
           "DWR", "DWA", "DPR", "DPA", "REQ", "ANS", "ADV1", "ADVT"]
SYMS_OUT = ["CEA_2001", "CEA_3xxx", "CEA_5xxx", "CER_known", "DWR", "DWA", "DPR", "DPA", "REQ", "ANS",
            "ADV1", "ADVT", "CEA_2001_vsa", "CEA_2002", "CEA_1001", "CEA_4xxx", "CEA_2001_case"]
CER_SYMS = {"CER_known", "CER_known_case", "CER_unknown", "CER_nocommon", "CER_relay"}


def world_cfg(c, direction, seed=0, slow_connect=False):
    peers = []
    for i in range(c["peers"]):
        p = {"name": (c.get("configured_names") or [])[i] if i < len(c.get("configured_names") or []) else f"peer{i + 1}.example",
             "ip": [f"10.1.1.{i + 1}"]}
        if c.get("default_peers"):
            p["default"] = True
        if i == 0:
            p["timers"] = dict(c["ptimers"])
            if direction == "out":
                p["persistent"] = True
        peers.append(p)
    return {"peers": peers, "apps": [dict(a, kind="basic", handler="hold") for a in c["apps"]],
            "node_timers": dict(idle=30, dwa=4, **c["timers"]), "default_dial": "inprogress" if slow_connect else "ok", "sched_seed": seed,
            "vendor_ids": [10415, 13019]}


def node_apps(c):
    auth = {a["app_id"] for a in c["apps"] if a.get("auth", True) and not a.get("acct")} | \
           {a["app_id"] for a in c["apps"] if a.get("auth") and a.get("acct")}
    acct = {a["app_id"] for a in c["apps"] if a.get("acct")}
    return auth, acct


def check_ce_answer_content(f: W.Frame, c, res: Result, what):
    auth, acct = node_apps(c)

    def vals(code):
        return sorted(a.data for a in f.avps(code))
    exp = {
        W.ORIGIN_HOST: [W.NODE_HOST.encode()], W.ORIGIN_REALM: [W.NODE_REALM.encode()],
        W.HOST_IP: [b"\x00\x01" + bytes([10, 0, 0, 1])], W.VENDOR_ID: [W.u32(99999)],
        W.PRODUCT_NAME: [b"python-diameter"],
        W.SUPPORTED_VENDOR: sorted(W.u32(v) for v in (10415, 13019)),
        W.AUTH_APP: sorted(W.u32(a) for a in auth), W.ACCT_APP: sorted(W.u32(a) for a in acct),
    }
    for code, want in exp.items():
        if vals(code) != want:
            res.v(f"C06/{what}/content/avp{code}", f"{what}: AVP {code} is {vals(code)}, expected {want}")


def evaluate(case) -> Result:
    res = Result()
    c = CONFIGS[case["cfg"]]
    direction = case["dir"]
    syms = case["syms"]
    cfg = world_cfg(c, direction, case.get("seed", 0), slow_connect=bool(case.get("connect_delay")) and direction == "out")
    w = W.NodeWorld(cfg)
    auth, acct = node_apps(c)
    T_node = c["timers"]
    pt = c["ptimers"]
    try:
        w.start()
        peer_mod = w.mods["peer"]
        if direction == "in":
            conn = w.accept("10.1.1.1")
            state = "awaiting"
            T = T_node["cer"]
        else:
            if not w.conns:
                res.v("C06/outbound/no-dial", "persistent peer was not dialled at start")
                return res
            conn = w.conns[0]
            T = pt.get("cea") or T_node["cea"]
            if case.get("connect_delay"):
                # the TCP handshake of the dial takes its time (lost SYN): longer than the CEA timeout when
                # connect_delay is "long"; the wait for the CEA starts when the CER can be sent
                w.advance(1 if case["connect_delay"] == "short" else T + 2)
                if conn.refresh():
                    res.v("C06/outbound/frame-before-connected", f"{[f.brief() for f in conn.out]}")
                w.connect_result(conn, True)
                res.classes.append(f"connect-delay:{case['connect_delay']}")
            conn.refresh()
            state = "awaiting"
            # outbound: the first frame must be a CER carrying the node's identity
            if [f.brief()[:3] for f in conn.out] != ["CER"]:
                res.v("C06/outbound/first-frame", f"frames after connect: {[f.brief() for f in conn.out]}")
                return res
            check_ce_answer_content_cer(conn.out[0], c, res)
        if case.get("others_ready"):
            # the other configured peers are connected and ready: routing has alternatives to choose from
            for i in range(1, c["peers"]):
                w.handshake_in(f"peer{i + 1}.example", auth=sorted(auth) or [4], acct=sorted(acct), ip=f"10.1.1.{i + 1}", hbh=0x900 + i)
            res.classes.append(f"other-peers-ready:{c['peers'] - 1}")
        busy = None
        if case.get("busy_other") and case.get("others_ready") and c["peers"] >= 2:
            # one of the ready peers keeps the node's I/O loop busy: a watchdog request every half second, i.e.
            # more often than the loop's wake-up interval
            busy = [x for x in w.conns if x is not conn and x.host == "peer2.example"]
            busy = busy[0] if busy else None
            if busy is not None:
                res.classes.append("other-peer-busy")
        ref = int(w.k.now)
        n_out = len(conn.refresh())
        n_req = 0
        hbh = 0x500
        pre_handshake_noise = False
        outcome = None
        sent_cer = False
        res.classes.append(f"dir:{direction}")
        res.classes.append(f"cfg:{c['name']}")
        if case.get("trickle"):
            res.classes.append("trickle-of-other-messages")
        for i, s in enumerate(syms):
            if conn.node_closed and state in ("awaiting", "rejected5010"):
                state = "closed-unexpected"
            elif conn.node_closed and state == "ready":
                state = "left"
            if state in ("closed", "left"):
                break
            hbh += 1
            t_before = w.k.now
            ref_before = ref
            glued = None
            if "+" in s:                 # "A+B": both messages arrive in one segment
                s, glued = s.split("+")
            if s in ("ADV1", "ADVT"):
                dt = 1 if s == "ADV1" else T + c["timers"]["wakeup"] + 2
                if busy is None:
                    w.advance(dt)
                else:
                    left = dt
                    while left > 0:
                        w.advance(min(0.5, left))
                        left -= 0.5
                        if left > 0 and not busy.node_closed:
                            hbh += 1
                            w.feed_msg(busy, {"k": "DWR", "host": "peer2.example", "hbh": 0x7000 + hbh, "e2e": 0x7000 + hbh})
            else:
                m = make_msg(s, hbh, conn, c)
                if s in CER_SYMS:
                    if sent_cer:
                        continue
                    sent_cer = True
                data = W.build_msg(m)
                if glued:
                    data += W.build_msg(make_msg(glued, hbh + 0x1000, conn, c))
                    res.classes.append("pipelined")
                if not w.feed(conn, data):
                    break
            conn.refresh()
            new = conn.out[n_out:]
            n_out = len(conn.out)
            new_req = len(w.requests_seen) - n_req
            n_req = len(w.requests_seen)
            nc = w.node_conn_for(conn)
            is_ready = nc is not None and nc.state in peer_mod.PEER_READY_STATES

            if (state in ("awaiting", "rejected5010") and s not in ("ADV1", "ADVT") and int(t_before) - ref_before > T
                    and conn.node_closed and not new and not new_req and not is_ready):
                # the bytes arrived after the timeout had run out: the node may close instead of reading them
                state = "closed"
                outcome = "timeout"
                res.classes.append("arrival-after-timeout")
                break
            if state in ("awaiting", "rejected5010"):
                expected_ce = (direction == "in" and s in CER_SYMS and state == "awaiting") or \
                              (direction == "out" and s.startswith("CEA_"))
                if s in ("ADV1", "ADVT"):
                    # timeout window
                    elapsed_end = int(w.k.now) - ref
                    if conn.node_closed:
                        closed_at = conn.remote.closed_at
                        if int(closed_at) - ref <= T:
                            res.v(f"C06/{direction}/timeout/early",
                                  f"closed {int(closed_at) - ref}s after the connection was established, timeout is {T}s")
                        state = "closed"
                        outcome = "timeout"
                    elif w.k.now - ref >= T + c["timers"]["wakeup"] + 1:
                        res.v(f"C06/{direction}/timeout/late",
                              f"still open {w.k.now - ref:g}s after the connection was established; timeout {T}s, wakeup {c['timers']['wakeup']}s")
                    if new:
                        res.v(f"C06/{direction}/gate/frame-on-timer", f"node sent {[f.brief() for f in new]} while awaiting the exchange")
                elif not expected_ce:
                    pre_handshake_noise = True
                    if new:
                        res.v(f"C06/{direction}/gate/answered", f"{s} before the handshake was answered with {[f.brief() for f in new]}")
                    if new_req:
                        res.v(f"C06/{direction}/gate/delivered", f"{s} before the handshake reached an application")
                    if is_ready:
                        res.v(f"C06/{direction}/gate/ready", f"connection became ready on {s}")
                    if conn.node_closed:
                        res.v(f"C06/{direction}/gate/closed", f"connection closed on {s} before the handshake")
                        state = "closed"
                elif direction == "in":
                    kind = s
                    known = kind != "CER_unknown"
                    shares = kind in ("CER_known", "CER_known_case") and bool(auth | acct)
                    relay = kind == "CER_relay"
                    behind = new[1:] if glued else []
                    if glued:
                        new = new[:1]
                    ceas = [f for f in new if f.code == W.CMD_CE and not f.is_request]
                    if len(new) != 1 or len(ceas) != 1:
                        res.v("C06/in/cer/answer-count", f"{kind} answered with {[f.brief() for f in new]}")
                    else:
                        rc = ceas[0].result_code()
                        check_ce_answer_content(ceas[0], c, res, "cea")
                        if not known:
                            want = 3010
                        elif shares or relay:
                            want = 2001
                        else:
                            want = 5010
                        if rc != want:
                            res.v(f"C06/in/cer/result/{kind}", f"{kind}: Result-Code {rc}, expected {want}")
                        if glued and want != 2001:
                            res.classes.append("pipelined-behind-rejected-cer")
                            if behind:
                                res.v("C06/in/gate/answered-behind-rejected-cer",
                                      f"{glued} in the same segment as a CER answered {want} was answered with {[f.brief() for f in behind]}")
                            if new_req:
                                res.v("C06/in/gate/delivered-behind-rejected-cer",
                                      f"{glued} in the same segment as a CER answered {want} reached an application")
                            new_req = 0
                        elif glued:
                            new_req = 0
                        if want == 2001:
                            peer = w.node.peers.get("peer1.example") or w.node.peers.get(cfg["peers"][0]["name"])
                            if glued in ("DPR", "DPA"):
                                pass                  # the connection is already on its way out again
                            elif not is_ready:
                                res.v("C06/in/cer/not-ready", "2001 sent but the connection is not ready")
                            elif peer is None or peer.connection is not nc:
                                res.v("C06/in/cer/peer-not-assigned", "2001 sent, ready, but Peer.connection is not this connection")
                            state = "left" if glued in ("DPR", "DPA") else "ready"
                            outcome = "ready"
                        elif want == 3010:
                            if not conn.node_closed:
                                res.v("C06/in/cer/unknown-not-closed", "3010 sent to an unknown peer but the socket stays open")
                            if is_ready:
                                res.v("C06/in/cer/unknown-ready", "unknown peer became ready")
                            state = "closed"
                            outcome = "3010"
                        else:
                            if is_ready:
                                res.v("C06/in/cer/nocommon-ready", "5010 sent but the connection is ready")
                            state = "rejected5010"
                            outcome = "5010"
                            if pt.get("cer"):
                                T = pt["cer"]
                    if new_req:
                        res.v("C06/in/cer/delivered", "a CER reached an application")
                else:   # outbound, a CEA
                    if new and not (glued and s in ("CEA_2001", "CEA_2001_vsa", "CEA_2001_case")):
                        res.v("C06/out/cea/answered", f"{s} was answered with {[f.brief() for f in new]}")
                    if s in ("CEA_2001", "CEA_2001_vsa", "CEA_2001_case"):
                        if not is_ready and glued not in ("DPR", "DPA"):
                            res.v("C06/out/cea/not-ready", "2001 CEA received but the connection is not ready")
                        state = "left" if glued in ("DPR", "DPA") else "ready"
                        outcome = "ready"
                    else:
                        if glued:
                            res.classes.append("pipelined-behind-rejected-cea")
                            if new_req:
                                res.v("C06/out/gate/delivered-behind-rejected-cea", f"{glued} behind {s} reached an application")
                        if is_ready:
                            res.v("C06/out/cea/rejected-ready", f"{s} made the connection ready")
                        if not conn.node_closed:
                            res.v("C06/out/cea/rejected-open", f"{s}: connection not closed")
                        else:
                            peer = w.node.peers.get("peer1.example") or w.node.peers.get(cfg["peers"][0]["name"])
                            if peer is not None and peer.disconnect_reason != peer_mod.DISCONNECT_REASON_CER_REJECTED:
                                res.v("C06/out/cea/reason", f"disconnect_reason {peer.disconnect_reason}")
                        state = "closed"
                        outcome = "rejected"
                # routing probe while not ready
                if state in ("awaiting", "rejected5010") and w.apps and not conn.node_closed:
                    probe_not_routable(w, res, direction)
            elif state == "ready":
                # after success the connection is served normally; keep an eye on readiness only
                if s in ("DPR", "DPA") or conn.node_closed:
                    state = "left"
            if state == "closed-unexpected":
                res.v(f"C06/{direction}/closed-unexpectedly", f"socket closed before step {i} ({s})")
                break
        for sig, d in W.monitor_threads(w):
            res.v(f"C06/thread-died/{sig}", d)
        res.nontrivial = pre_handshake_noise or outcome in ("3010", "5010", "rejected", "timeout")
        res.classes += [f"outcome:{outcome}", f"noise:{pre_handshake_noise}", f"len:{min(len(syms), 6)}"]
        res.sample = {"case": case, "transcript": w.summary()[:2]}
        return res
    finally:
        w.close()


def check_ce_answer_content_cer(f: W.Frame, c, res: Result):
    auth, acct = node_apps(c)
    if not f.is_request or f.code != W.CMD_CE:
        res.v("C06/out/cer/not-a-cer", f.brief())
        return
    for code, want in ((W.ORIGIN_HOST, [W.NODE_HOST.encode()]), (W.ORIGIN_REALM, [W.NODE_REALM.encode()]),
                       (W.AUTH_APP, sorted(W.u32(a) for a in auth)), (W.ACCT_APP, sorted(W.u32(a) for a in acct)),
                       (W.VENDOR_ID, [W.u32(99999)]), (W.PRODUCT_NAME, [b"python-diameter"])):
        got = sorted(a.data for a in f.avps(code))
        if got != want:
            res.v(f"C06/out/cer/content/avp{code}", f"CER AVP {code}: {got}, expected {want}")


def probe_not_routable(w, res, direction):
    from diameter.message.commands import CreditControlRequest
    NotRoutable = w.mods["node"].NotRoutable
    app = w.apps[0]
    msg = CreditControlRequest()
    msg.destination_realm = W.NODE_REALM.encode()
    msg.header.end_to_end_identifier = 0x7001
    under_test = w.node_conn_for(w.conns[0])
    ready_states = w.mods["peer"].PEER_READY_STATES
    try:
        conn, _ = w.node.route_request(app, msg)
        if conn is under_test or conn.state not in ready_states:
            res.v(f"C06/{direction}/gate/routable", "route_request returned a connection whose exchange has not succeeded")
    except NotRoutable:
        pass
    except Exception as e:
        res.v(f"C06/{direction}/gate/route-request-raised", f"route_request raised {type(e).__name__}: {e}")


def make_msg(s, hbh, conn, c):
    auth, acct = node_apps(c)
    base = {"hbh": hbh, "e2e": hbh}
    if s in ("CER_known", "CER_known_case"):
        # DiameterIdentity is case-insensitive: the peer may spell its own name differently from the configuration
        return dict(base, k="CER", host="peer1.example" if s == "CER_known" else "Peer1.EXAMPLE",
                    auth=sorted(auth) or [4], acct=sorted(acct))
    if s == "CER_unknown":
        return dict(base, k="CER", host="stranger.example", auth=sorted(auth) or [4])
    if s == "CER_nocommon":
        # advertises the node's auth app as accounting and an unrelated auth app
        return dict(base, k="CER", host="peer1.example", auth=[16777251], acct=sorted(auth))
    if s == "CER_relay":
        return dict(base, k="CER", host="peer1.example", auth=[W.APP_RELAY])
    if s.startswith("CEA_"):
        conn.refresh()
        cers = [f for f in conn.out if f.code == W.CMD_CE and f.is_request]
        ids = {"hbh": cers[-1].h["hbh"], "e2e": cers[-1].h["e2e"]} if cers else base
        rc = {"CEA_2001": 2001, "CEA_3xxx": 3010, "CEA_5xxx": 5010, "CEA_2001_vsa": 2001, "CEA_2002": 2002,
              "CEA_1001": 1001, "CEA_4xxx": 4003, "CEA_2001_case": 2001}[s]
        m = dict(ids, k="CEA", host="PEER1.Example" if s == "CEA_2001_case" else "peer1.example", result=rc, auth=sorted(auth) or [4], acct=sorted(acct))
        return m
    if s in ("DWR", "DWA", "DPR", "DPA"):
        return dict(base, k=s, host="peer1.example")
    if s == "REQ":
        return dict(base, k="REQ", host="peer1.example")
    if s == "ANS":
        return dict(base, k="ANS", host="peer1.example")
    raise ValueError(s)


def valid_seq(direction, syms):
    n_cer = sum(1 for s in syms if s.split("+")[0] in CER_SYMS)
    if direction == "in" and n_cer > 1:
        return False
    return True


def install_points():
    from dv import sched, simkernel as sk
    mods = sk.load_node()
    N = mods["node"].Node
    P = mods["peer"].PeerConnection
    return sched.install({N._handle_connections: r"peer_sockets|self\.connections\.get|_list\.append|_list \+=|select\.select|interrupt_read|PEER_CLOSED",
                          N.close_connection_socket: None, N.remove_peer_connection: None, N.receive_cea: r"close_connection_socket|result_code|\.close\(",
                          N.receive_cer: r"self\.connections|origin_host == cer_origin_host", N._add_peer_connection: None,
                          P.close: None, P.demand_attention: None})


def install_points_newcomer():
    from dv import sched, simkernel as sk
    mods = sk.load_node()
    N = mods["node"].Node
    sched.clear()
    return sched.install({N.receive_cer: r"self\.connections|origin_host == cer_origin_host",
                          N._add_peer_connection: r"self\.connections\[", N._handle_connections: r"\.accept\(|add_in_bytes"})


def cea_rejected_vs_io_loop(decisions, rc1=3010):
    """Two dialled connections await their CEA; the first CEA rejects (the connection's reader thread closes the
    connection and removes it from the tables), the second accepts - while the I/O loop goes on serving.  One schedule."""
    from dv import sched
    w = W.NodeWorld({"peers": [{"name": "peer1.example", "ip": ["10.1.1.1"], "persistent": True, "reconnect_wait": 1000},
                               {"name": "peer2.example", "ip": ["10.1.1.2"], "persistent": True, "reconnect_wait": 1000}],
                     "apps": [{"app_id": 4, "auth": True, "peers": [0, 1], "handler": "answer"}],
                     "node_timers": {"idle": 5000, "dwa": 50, "cer": 50, "cea": 50, "wakeup": 5}, "default_dial": "ok"})
    try:
        w.start()
        by_ip = {c.remote.addr[0]: c for c in w.conns if c.remote.addr}
        c1, c2 = by_ip.get("10.1.1.1"), by_ip.get("10.1.1.2")
        problems = []
        if c1 is None or c2 is None:
            return [], [("setup", "the two persistent peers were not dialled")]
        ex = sched.Explorer(decisions)
        sched.attach(w.k, ex)
        for c, rc, host in ((c1, rc1, "peer1.example"), (c2, 2001, "peer2.example")):
            cers = [f for f in c.refresh() if f.code == W.CMD_CE and f.is_request]
            c.host = host
            w.feed_msg(c, {"k": "CEA", "host": host, "result": rc, "auth": [4], "hbh": cers[-1].h["hbh"], "e2e": cers[-1].h["e2e"]}, run=False)
        ex.armed = True
        w.k.run()
        ex.armed = False
        w.advance(1)
        for sig, d in W.monitor_threads(w):
            problems.append((f"thread-died/{sig}", d))
        if not c1.node_closed:
            problems.append(("rejected-open", f"connection whose CEA carried {rc1} is still open"))
        nc2 = w.node_conn_for(c2)
        if nc2 is None or nc2.state not in w.mods["peer"].PEER_READY_STATES:
            problems.append(("accepted-not-ready", "connection whose CEA carried 2001 is not ready"))
        else:
            # the node still serves: a DWR on the ready connection is answered
            w.feed_msg(c2, {"k": "DWR", "host": "peer2.example", "hbh": 0x77, "e2e": 0x77})
            if not [f for f in c2.refresh() if f.code == W.CMD_DW and not f.is_request and f.h["hbh"] == 0x77]:
                problems.append(("not-served-afterwards", "DWR on the ready connection was not answered"))
        return ex.trace, problems
    finally:
        w.close()


def cer_vs_table_change(decisions, other="loss"):
    """A CER is processed (by its connection's reader thread) while another connection is removed from, or a new one
    added to, the node's tables by the I/O thread in the same instant.  One schedule."""
    from dv import sched
    w = W.NodeWorld({"peers": [{"name": f"peer{i + 1}.example", "ip": [f"10.1.1.{i + 1}"]} for i in range(3)],
                     "apps": [{"app_id": 4, "auth": True, "peers": [0, 1, 2], "handler": "answer"}],
                     "node_timers": {"idle": 5000, "dwa": 50, "cer": 50, "cea": 50, "wakeup": 5}})
    try:
        w.start()
        b = w.handshake_in("peer2.example", auth=[4], ip="10.1.1.2", hbh=0x102)
        c3 = w.handshake_in("peer3.example", auth=[4], ip="10.1.1.3", hbh=0x103)
        a = w.accept("10.1.1.1")
        a.host = "peer1.example"
        ex = sched.Explorer(decisions)
        sched.attach(w.k, ex)
        w.feed_msg(a, {"k": "CER", "host": "peer1.example", "auth": [4], "hbh": 0x101, "e2e": 0x101}, run=False)
        if other == "loss":
            b.peer_closed = True
            b.remote.close()
        elif other == "newcomer":
            w.net.connect_to(W.NODE_IP, 3868, "10.1.1.9")       # a newcomer is accepted at the same moment
        else:
            # ... or a newcomer whose connection request arrives at any moment while the CER is being handled
            w.k.spawn(lambda: w.net.connect_to(W.NODE_IP, 3868, "10.1.1.9"), name="network")
        ex.armed = True
        w.k.run()
        ex.armed = False
        w.advance(1)
        problems = []
        ceas = [f for f in a.refresh() if f.code == W.CMD_CE and not f.is_request]
        if len(ceas) != 1 or ceas[0].result_code() != 2001:
            problems.append(("cer-not-accepted", f"CER of a known peer sharing an application answered with {[f.brief() for f in a.out]}"))
        nca = w.node_conn_for(a)
        if nca is None or nca.state not in w.mods["peer"].PEER_READY_STATES:
            problems.append(("not-ready", "the connection did not become ready"))
        for sig, d in W.monitor_threads(w):
            problems.append((f"thread-died/{sig}", d))
        return ex.trace, problems
    finally:
        w.close()


def install_points_waiter():
    from dv import sched, simkernel as sk
    mods = sk.load_node()
    N = mods["node"].Node
    sched.clear()
    return sched.install({N.receive_cer: r"_assign_peer_connection|_flag_connection_as_ready|is now ready|answer\.result_code|send_message",
                          N._flag_connection_as_ready: None})


def waiting_sender_vs_cea(decisions):
    """An application thread waits for its application to become ready and sends a request at once.  The CER of the
    only peer arrives.  One schedule: whatever the interleaving, the peer sees the CEA before anything else."""
    from dv import sched
    from diameter.message.commands import CreditControlRequest
    w = W.NodeWorld({"peers": [{"name": "peer1.example", "ip": ["10.1.1.1"]}],
                     "apps": [{"app_id": 4, "auth": True, "peers": [0], "handler": "answer"}],
                     "node_timers": {"idle": 5000, "dwa": 50, "cer": 50, "cea": 50, "wakeup": 5}})
    try:
        w.start()
        a = w.accept("10.1.1.1")
        a.host = "peer1.example"
        app = w.apps[0]
        m = CreditControlRequest()
        m.session_id, m.origin_host, m.origin_realm = "n;1", W.NODE_HOST.encode(), W.NODE_REALM.encode()
        m.destination_realm, m.service_context_id = W.NODE_REALM.encode(), "x"
        m.cc_request_type, m.cc_request_number = 1, 0

        def waiter():
            app.wait_for_ready(timeout=10)
            return app.send_request(m, timeout=1)
        box = w.k.spawn(waiter, name="waiter")
        w.k.run()
        ex = sched.Explorer(decisions)
        sched.attach(w.k, ex)
        w.feed_msg(a, {"k": "CER", "host": "peer1.example", "auth": [4], "hbh": 0x101, "e2e": 0x101}, run=False)
        ex.armed = True
        w.k.run()
        ex.armed = False
        w.advance(2)
        problems = []
        out = a.refresh()
        if not out or out[0].code != W.CMD_CE or out[0].is_request or out[0].result_code() != 2001:
            problems.append(("request-before-cea", f"written to the peer, in order: {[f.brief() for f in out]}"))
        if not [f for f in out if f.is_request and f.code == 272]:
            problems.append(("waiter-did-not-send", f"outcome of the waiting sender: {box['exc']!r}"))
        for sig, d in W.monitor_threads(w):
            problems.append((f"thread-died/{sig}", d))
        return ex.trace, problems
    finally:
        w.close()


def install_points_connecting():
    from dv import sched, simkernel as sk
    mods = sk.load_node()
    N, P = mods["node"].Node, mods["peer"].PeerConnection
    sched.clear()
    return sched.install({N._handle_connections: r"add_in_bytes|ready_w|wsock|PEER_CONNECTING|_flag_peer_as_connected|send_cer",
                          N._flag_peer_as_connected: None, N.send_cer: None,
                          P.work_read_queue: r"dispatch_message|from_bytes"})


def connecting_vs_early_bytes(decisions, first="DWR"):
    """The node's dial is in progress; it completes and the remote end sends a message at once, so that the socket
    turns writable and readable in the same I/O-loop turn.  One schedule: the node's CER is the first thing it
    writes, and nothing but a CEA is processed before the exchange has succeeded."""
    from dv import sched
    w = W.NodeWorld({"peers": [{"name": "peer1.example", "ip": ["10.1.1.1"], "persistent": True, "reconnect_wait": 1000}],
                     "apps": [{"app_id": 4, "auth": True, "peers": [0], "handler": "answer"}],
                     "node_timers": {"idle": 5000, "dwa": 50, "cer": 50, "cea": 50, "wakeup": 5}, "default_dial": "inprogress"})
    try:
        w.start()
        if not w.conns:
            return [], [("setup", "persistent peer not dialled")]
        c = w.conns[0]
        c.host = "peer1.example"
        ex = sched.Explorer(decisions)
        sched.attach(w.k, ex)
        c.remote.complete_connect(True)
        msg = {"DWR": {"k": "DWR"}, "CER": {"k": "CER", "auth": [4]}, "REQ": {"k": "REQ"}}[first]
        w.feed_msg(c, dict(msg, host="peer1.example", hbh=0x31, e2e=0x31), run=False)
        ex.armed = True
        w.k.run()
        ex.armed = False
        w.advance(1)
        problems = []
        out = c.refresh()
        if not out or not (out[0].code == W.CMD_CE and out[0].is_request):
            problems.append(("first-frame-not-cer", f"frames written on the dialled connection, in order: {[f.brief() for f in out]}"))
        if [f for f in out if not f.is_request]:
            problems.append(("answered-before-exchange", f"a {first} that arrived before the node's CER was sent / answered got {[f.brief() for f in out if not f.is_request]}"))
        if w.requests_seen:
            problems.append(("delivered-before-exchange", "an application saw a request before the exchange"))
        nc = w.node_conn_for(c)
        if nc is not None and nc.state in w.mods["peer"].PEER_READY_STATES:
            problems.append(("ready-without-cea", "the dialled connection is ready although no CEA was received"))
        for sig, d in W.monitor_threads(w):
            problems.append((f"thread-died/{sig}", d))
        return ex.trace, problems
    finally:
        w.close()


def schedule_part(rec, shard, nshards, thorough):
    from dv import sched
    from dv.common import fp
    info = install_points_connecting()
    if shard == 0:
        rec.extra["preemption_functions_connecting"] = info
    for first in ("DWR", "CER", "REQ"):
        holder4 = {}

        def run_four(dec, first=first):
            tr, problems = connecting_vs_early_bytes(dec, first)
            holder4["last"] = problems
            return tr
        n4 = 0
        for dec, trace in sched.enumerate_schedules(run_four, 3 if thorough else 2, shard, nshards):
            case = {"connecting_vs_early_bytes": first, "schedule": {str(i): c for i, c in sorted(dec.items())}}
            for kind, detail in holder4["last"]:
                rec.violation(f"C06/early-bytes-while-connecting/{kind}", case, detail)
            n4 += 1
            rec.case(fp("sched-early", first, tuple(sorted(dec.items()))) if dec else None,
                     ["schedule-exploration", "connecting-vs-early-bytes", f"deviations:{len(dec)}"], sample=lambda: dict(case, choice_points=len(trace)))
        rec.extra["connecting_vs_early_bytes_schedules"] = rec.extra.get("connecting_vs_early_bytes_schedules", 0) + n4
    info = install_points_waiter()
    if shard == 0:
        rec.extra["preemption_functions_waiter"] = info
    holder3 = {}

    def run_three(dec):
        tr, problems = waiting_sender_vs_cea(dec)
        holder3["last"] = problems
        return tr
    n3 = 0
    for dec, trace in sched.enumerate_schedules(run_three, 3 if thorough else 2, shard, nshards):
        case = {"waiting_sender_vs_cea": True, "schedule": {str(i): c for i, c in sorted(dec.items())}}
        for kind, detail in holder3["last"]:
            rec.violation(f"C06/ready-before-cea/{kind}", case, detail)
        n3 += 1
        rec.case(fp("sched-waiter", tuple(sorted(dec.items()))) if dec else None,
                 ["schedule-exploration", "waiting-sender-vs-cea", f"deviations:{len(dec)}"], sample=lambda: dict(case, choice_points=len(trace)))
    rec.extra["waiting_sender_schedules"] = rec.extra.get("waiting_sender_schedules", 0) + n3
    sched.clear()
    info = install_points()
    if shard == 0:
        rec.extra["preemption_functions"] = info
    for other in ("loss", "newcomer", "newcomer-any-moment"):
        if other == "newcomer-any-moment":
            install_points_newcomer()
        holder2 = {}

        def run_two(dec, other=other):
            tr, problems = cer_vs_table_change(dec, other)
            holder2["last"] = problems
            return tr
        n2 = 0
        for dec, trace in sched.enumerate_schedules(run_two, (3 if thorough else 2) if other == "newcomer-any-moment" else (2 if thorough else 1), shard, nshards):
            case = {"cer_vs_table_change": other, "schedule": {str(i): c for i, c in sorted(dec.items())}}
            for kind, detail in holder2["last"]:
                rec.violation(f"C06/concurrent-cer/{kind}", case, detail)
            n2 += 1
            rec.case(fp("sched-cer", other, tuple(sorted(dec.items()))) if dec else None,
                     ["schedule-exploration", f"cer-vs:{other}", f"deviations:{len(dec)}"], sample=lambda: dict(case, choice_points=len(trace)))
        rec.extra["cer_vs_table_schedules"] = rec.extra.get("cer_vs_table_schedules", 0) + n2
    install_points()
    holder = {}

    def run_one(dec):
        tr, problems = cea_rejected_vs_io_loop(dec)
        holder["last"] = problems
        return tr
    n = 0
    for dec, trace in sched.enumerate_schedules(run_one, 3 if thorough else 2, shard, nshards):
        case = {"cea_rejected_vs_io_loop": True, "schedule": {str(i): c for i, c in sorted(dec.items())}}
        for kind, detail in holder["last"]:
            rec.violation(f"C06/concurrent-cea-rejection/{kind}", case, detail)
        n += 1
        rec.case(fp("sched", tuple(sorted(dec.items()))) if dec else None, ["schedule-exploration", f"deviations:{len(dec)}"],
                 sample=lambda: dict(case, choice_points=len(trace)))
    rec.extra["cea_rejection_schedules"] = rec.extra.get("cea_rejection_schedules", 0) + n


def shard_main(shard, nshards, tier, scale):
    rec = Recorder(PID)
    thorough = tier == "thorough"
    shrunk = set()
    schedule_part(rec, shard, nshards, thorough)
    depth = 4 if thorough else 3
    jobs = []
    for direction, syms in (("in", SYMS_IN), ("out", SYMS_OUT)):
        for d in (1, 2):
            for seq in itertools.product(syms, repeat=d):
                if valid_seq(direction, seq):
                    jobs.append({"cfg": len(CONFIGS) - 1, "dir": direction, "syms": list(seq)})
    for ci in (0, 1):
        for direction, syms in (("in", SYMS_IN), ("out", SYMS_OUT)):
            for d in range(1, depth + 1):
                for seq in itertools.product(syms, repeat=d):
                    if valid_seq(direction, seq):
                        jobs.append({"cfg": ci, "dir": direction, "syms": list(seq)})
    # two messages in one segment: a capabilities-exchange message with any other message right behind it
    behind_syms = ["DWR", "DWA", "DPR", "DPA", "REQ", "ANS"]
    for ci in range(len(CONFIGS)):
        for prefix in ([], ["DWR"], ["ADV1"]):
            for b in behind_syms:
                for a in sorted(CER_SYMS):
                    jobs.append({"cfg": ci, "dir": "in", "syms": prefix + [f"{a}+{b}", "ADV1", "REQ"]})
                for a in ("CEA_2001", "CEA_3xxx", "CEA_5xxx", "CEA_2002"):
                    jobs.append({"cfg": ci, "dir": "out", "syms": prefix + [f"{a}+{b}", "ADV1", "REQ"]})
    for ci, cc in enumerate(CONFIGS):
        if cc["peers"] >= 2 and cc["apps"]:
            for direction, syms in (("in", SYMS_IN), ("out", SYMS_OUT)):
                for d in (1, 2):
                    for seq in itertools.product(syms, repeat=d):
                        if valid_seq(direction, seq):
                            jobs.append({"cfg": ci, "dir": direction, "syms": list(seq), "others_ready": True})
                            if any(x in ("ADV1", "ADVT") for x in seq):
                                jobs.append({"cfg": ci, "dir": direction, "syms": list(seq), "others_ready": True, "busy_other": True})
    for ci in range(len(CONFIGS)):
        for delay in ("short", "long"):
            for seq in (["CEA_2001", "REQ"], ["ADV1", "CEA_2001"], ["ADVT"], ["DWR", "CEA_2001"], ["CEA_5xxx"]):
                jobs.append({"cfg": ci, "dir": "out", "syms": seq, "connect_delay": delay})
    # a connection that keeps sending anything but the expected CER / CEA, once per second, for longer than the timeout
    for ci, cc in enumerate(CONFIGS):
        for direction in ("in", "out"):
            T_ = cc["timers"]["cer"] if direction == "in" else (cc["ptimers"].get("cea") or cc["timers"]["cea"])
            for noise_ in ("DWR", "DWA", "REQ", "ANS", "DPA"):
                jobs.append({"cfg": ci, "dir": direction, "syms": [noise_, "ADV1"] * (T_ + cc["timers"]["wakeup"] + 2), "trickle": True})
    if shard == 0:
        rec.extra["enumerated_histories"] = len(jobs)
    rec.extra["enumeration_depth"] = depth
    for case in jobs[shard::nshards]:
        res = evaluate(case)
        res.classes.append("enumerated")
        record(rec, case, res, evaluate, "syms", shrunk)
    # deeper random histories over all configurations
    n = int((12000 if thorough else 700) * scale)

    @st.composite
    def cases(draw):
        direction = draw(st.sampled_from(["in", "out"]))
        syms = draw(st.lists(st.sampled_from(SYMS_IN if direction == "in" else SYMS_OUT), min_size=1, max_size=12))
        seen_cer = False
        out = []
        for s in syms:
            if s in CER_SYMS and direction == "in":
                if seen_cer:
                    continue
                seen_cer = True
            if ((s in CER_SYMS and direction == "in") or (s.startswith("CEA_") and direction == "out")) and draw(st.booleans()):
                s = s + "+" + draw(st.sampled_from(["DWR", "DWA", "DPR", "DPA", "REQ", "ANS"]))
            out.append(s)
        return {"cfg": draw(st.integers(0, len(CONFIGS) - 1)), "dir": direction, "syms": out,
                "seed": draw(st.integers(0, 3)), "others_ready": draw(st.booleans()), "busy_other": draw(st.booleans()),
                "connect_delay": draw(st.sampled_from([None, None, "short", "long"]))}

    def body(case):
        res = evaluate(case)
        res.classes.append("random")
        record(rec, case, res, evaluate, "syms", shrunk)
    hyp.run_given(cases(), body, n, derive_seed(PID, "rand", shard), rec=rec)
    return rec.dump()


def run(tier, scale=1.0):
    t0 = time.time()
    rec = Recorder(PID)
    for d in hyp.pool_run(shard_main, (tier, scale)):
        rec.merge(d)
    required = {"trickle-of-other-messages": 1, "connect-delay:long": 1, "connect-delay:short": 1, "connecting-vs-early-bytes": 1, "waiting-sender-vs-cea": 1, "other-peer-busy": 1, "dir:in": 1, "dir:out": 1, "outcome:ready": 1, "outcome:3010": 1, "outcome:5010": 1,
                "outcome:rejected": 1, "outcome:timeout": 1, "noise:True": 1, "len:6": 1,
                "schedule-exploration": 1, "cfg:auth4/configured-name-mixed-case": 1, "other-peers-ready:2": 1, "pipelined-behind-rejected-cer": 1, "pipelined-behind-rejected-cea": 1}
    return finish(rec, tier=tier, level="exploration", rule=RULE, assumptions=ASSUME, t0=t0,
                  required_classes=required,
                  extra_cov={"exhaustive_part": "all symbol sequences up to the enumeration depth for 2 base configurations x 2 directions"})


def replay_schedule(doc):
    install_points()
    _, problems = cea_rejected_vs_io_loop({int(i): c for i, c in doc["case"]["schedule"].items()})
    sigs = [f"C06/concurrent-cea-rejection/{k}" for k, _ in problems]
    if doc["signature"] in sigs:
        print(f"  replayed: {problems[0][1][:300]}")
        print(f"VIOLATION property={PID} replay=(replay)")
        return 1
    print(f"[{PID}] replay: signature {doc['signature']} does not reproduce (got {sigs})")
    return 0


def replay(doc):
    if doc["case"].get("connecting_vs_early_bytes"):
        install_points_connecting()
        _, problems = connecting_vs_early_bytes({int(i): c for i, c in doc["case"]["schedule"].items()}, doc["case"]["connecting_vs_early_bytes"])
        sigs = [f"C06/early-bytes-while-connecting/{k}" for k, _ in problems]
        if doc["signature"] in sigs:
            print(f"  replayed: {problems[0][1][:300]}")
            print(f"VIOLATION property={PID} replay=(replay)")
            return 1
        print(f"[{PID}] replay: signature {doc['signature']} does not reproduce (got {sigs})")
        return 0
    if doc["case"].get("waiting_sender_vs_cea"):
        install_points_waiter()
        _, problems = waiting_sender_vs_cea({int(i): c for i, c in doc["case"]["schedule"].items()})
        sigs = [f"C06/ready-before-cea/{k}" for k, _ in problems]
        if doc["signature"] in sigs:
            print(f"  replayed: {problems[0][1][:300]}")
            print(f"VIOLATION property={PID} replay=(replay)")
            return 1
        print(f"[{PID}] replay: signature {doc['signature']} does not reproduce (got {sigs})")
        return 0
    if doc["case"].get("cea_rejected_vs_io_loop"):
        return replay_schedule(doc)
    if doc["case"].get("cer_vs_table_change"):
        install_points_newcomer() if doc["case"]["cer_vs_table_change"] == "newcomer-any-moment" else install_points()
        _, problems = cer_vs_table_change({int(i): c for i, c in doc["case"]["schedule"].items()}, doc["case"]["cer_vs_table_change"])
        sigs = [f"C06/concurrent-cer/{k}" for k, _ in problems]
        if doc["signature"] in sigs:
            print(f"  replayed: {problems[0][1][:300]}")
            print(f"VIOLATION property={PID} replay=(replay)")
            return 1
        print(f"[{PID}] replay: signature {doc['signature']} does not reproduce (got {sigs})")
        return 0
    return generic_replay(PID, evaluate, doc)
