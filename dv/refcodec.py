"""E1 -- an independent reference codec for RFC 6733 messages and AVPs.

Written from RFC 6733 sections 3 (header), 4.1 (AVP header), 4.2/4.3 (data
formats) and RFC 5905 / RFC 4330 section 3 (NTP era convention).  It shares no
code with diameter.message; only the AVP dictionary (code, vendor -> type name,
default M flag) is read from the repository, as data.
"""
from __future__ import annotations

import ipaddress
import struct

NTP_UNIX_DELTA = 2_208_988_800            # seconds 1900-01-01 .. 1970-01-01
ERA = 1 << 32
# RFC 4330 s.3: most significant bit set -> 1968..2036 ; clear -> 2036..2104
TIME_MIN_UNIX = (1 << 31) - NTP_UNIX_DELTA            # 1968-01-20T03:14:08Z
TIME_MAX_UNIX = ERA + (1 << 31) - 1 - NTP_UNIX_DELTA  # 2104-02-26T09:42:23Z

FLAG_V, FLAG_M, FLAG_P = 0x80, 0x40, 0x20


class RefError(Exception):
    pass


# --------------------------------------------------------------------------
# civil date <-> unix seconds (no use of datetime.timestamp / fromtimestamp)
# --------------------------------------------------------------------------
def days_from_civil(y: int, m: int, d: int) -> int:
    y -= m <= 2
    era = (y if y >= 0 else y - 399) // 400
    yoe = y - era * 400
    doy = (153 * (m + (-3 if m > 2 else 9)) + 2) // 5 + d - 1
    doe = yoe * 365 + yoe // 4 - yoe // 100 + doy
    return era * 146097 + doe - 719468


def civil_from_days(z: int):
    z += 719468
    era = (z if z >= 0 else z - 146096) // 146097
    doe = z - era * 146097
    yoe = (doe - doe // 1460 + doe // 36524 - doe // 146096) // 365
    y = yoe + era * 400
    doy = doe - (365 * yoe + yoe // 4 - yoe // 100)
    mp = (5 * doy + 2) // 153
    d = doy - (153 * mp + 2) // 5 + 1
    m = mp + (3 if mp < 10 else -9)
    return (y + (m <= 2), m, d)


def unix_from_fields(y, mo, d, h, mi, s) -> int:
    return days_from_civil(y, mo, d) * 86400 + h * 3600 + mi * 60 + s


def fields_from_unix(u: int):
    days, rem = divmod(u, 86400)
    y, mo, d = civil_from_days(days)
    return (y, mo, d, rem // 3600, rem % 3600 // 60, rem % 60)


# --------------------------------------------------------------------------
# data formats
# --------------------------------------------------------------------------
def enc_int(v: int, nbytes: int, signed: bool) -> bytes:
    return v.to_bytes(nbytes, "big", signed=signed)


def enc_f32_bits(bits: int) -> bytes:
    return bits.to_bytes(4, "big")


def enc_f64_bits(bits: int) -> bytes:
    return bits.to_bytes(8, "big")


def enc_time_unix(u: int) -> bytes:
    if not TIME_MIN_UNIX <= u <= TIME_MAX_UNIX:
        raise RefError("time out of the NTP era 0/1 window")
    return ((u + NTP_UNIX_DELTA) % ERA).to_bytes(4, "big")


def dec_time_unix(b: bytes) -> int:
    n = int.from_bytes(b, "big")
    if n & 0x80000000:
        return n - NTP_UNIX_DELTA
    return n + ERA - NTP_UNIX_DELTA


def enc_address(text: str) -> bytes:
    """Address: 2-octet IANA address family + address.  1 = IPv4 (4 octets),
    2 = IPv6 (16 octets), 8 = E.164 (the digits, as the library documents)."""
    if "." in text or ":" in text:
        ip = ipaddress.ip_address(text)
        return (1 if ip.version == 4 else 2).to_bytes(2, "big") + ip.packed
    return (8).to_bytes(2, "big") + text.encode("ascii")


def dec_address(b: bytes):
    fam = int.from_bytes(b[:2], "big")
    body = b[2:]
    if fam == 1:
        if len(body) != 4:
            raise RefError("bad ipv4 size")
        return fam, str(ipaddress.IPv4Address(body))
    if fam == 2:
        if len(body) != 16:
            raise RefError("bad ipv6 size")
        return fam, str(ipaddress.IPv6Address(body))
    if fam == 8:
        return fam, body.decode("utf-8")
    return fam, body.hex()


def addr_canon(fam_text):
    """Canonical (family, packed) form for comparing addresses."""
    fam, text = fam_text
    if fam == 1:
        return fam, ipaddress.IPv4Address(text).packed
    if fam == 2:
        return fam, ipaddress.IPv6Address(text).packed
    return fam, text


# --------------------------------------------------------------------------
# AVP and message framing
# --------------------------------------------------------------------------
def pad4(n: int) -> int:
    return (-n) % 4


def enc_avp(code: int, vendor: int, flags: int, data: bytes) -> bytes:
    """flags: the M/P (and reserved) bits as requested; V is derived."""
    flags = (flags & ~FLAG_V) | (FLAG_V if vendor else 0)
    hdr = 12 if vendor else 8
    length = hdr + len(data)
    if length >= 1 << 24:
        raise RefError("AVP too long")
    out = code.to_bytes(4, "big") + bytes([flags]) + length.to_bytes(3, "big")
    if vendor:
        out += vendor.to_bytes(4, "big")
    return out + data + b"\0" * pad4(len(data))


def enc_header(version, length, flags, code, app_id, hbh, e2e) -> bytes:
    return (bytes([version]) + length.to_bytes(3, "big") + bytes([flags]) +
            code.to_bytes(3, "big") + app_id.to_bytes(4, "big") +
            hbh.to_bytes(4, "big") + e2e.to_bytes(4, "big"))


def enc_message(version, flags, code, app_id, hbh, e2e, avp_bytes: bytes) -> bytes:
    return enc_header(version, 20 + len(avp_bytes), flags, code, app_id, hbh,
                      e2e) + avp_bytes


class RAvp:
    """A parsed AVP: header fields, raw data, byte spans; children filled in
    by parse_tree() when the dictionary says Grouped."""
    __slots__ = ("code", "vendor", "flags", "length", "data", "start", "end",
                 "len_pos", "children", "depth")

    def __init__(self, code, vendor, flags, length, data, start, end, len_pos):
        self.code, self.vendor, self.flags = code, vendor, flags
        self.length, self.data = length, data
        self.start, self.end, self.len_pos = start, end, len_pos
        self.children = None
        self.depth = 0

    def key(self):
        return (self.code, self.vendor)

    def as_tuple(self):
        return (self.code, self.vendor, self.flags, self.data if self.children is None
                else tuple(c.as_tuple() for c in self.children))


def parse_avps(buf: bytes, base: int = 0) -> list[RAvp]:
    """Strict parse of a concatenation of AVPs (RFC 6733 4.1)."""
    out = []
    pos = 0
    n = len(buf)
    while pos < n:
        if n - pos < 8:
            raise RefError("truncated AVP header")
        code = int.from_bytes(buf[pos:pos + 4], "big")
        flags = buf[pos + 4]
        length = int.from_bytes(buf[pos + 5:pos + 8], "big")
        hdr = 8
        vendor = 0
        if flags & FLAG_V:
            if n - pos < 12:
                raise RefError("truncated vendor id")
            vendor = int.from_bytes(buf[pos + 8:pos + 12], "big")
            hdr = 12
        if length < hdr:
            raise RefError("AVP length shorter than its header")
        dlen = length - hdr
        end = pos + hdr + dlen + pad4(dlen)
        if end > n:
            raise RefError("AVP overruns buffer")
        out.append(RAvp(code, vendor, flags, length, buf[pos + hdr:pos + hdr + dlen],
                        base + pos, base + end, base + pos + 5))
        pos = end
    return out


def parse_tree(buf: bytes, is_grouped, base: int = 0, depth: int = 0,
               lenient: bool = True) -> list[RAvp]:
    """Parse AVPs and descend into those the dictionary calls Grouped."""
    avps = parse_avps(buf, base)
    for a in avps:
        a.depth = depth
        if is_grouped(a.code, a.vendor):
            hdr = 12 if a.vendor else 8
            try:
                a.children = parse_tree(a.data, is_grouped, a.start + hdr,
                                        depth + 1, lenient)
            except RefError:
                if not lenient:
                    raise
                a.children = None
    return avps


def parse_header(buf: bytes):
    if len(buf) < 20:
        raise RefError("truncated header")
    return {
        "version": buf[0], "length": int.from_bytes(buf[1:4], "big"),
        "flags": buf[4], "code": int.from_bytes(buf[5:8], "big"),
        "app_id": int.from_bytes(buf[8:12], "big"),
        "hbh": int.from_bytes(buf[12:16], "big"),
        "e2e": int.from_bytes(buf[16:20], "big"),
    }


def parse_message(buf: bytes, is_grouped=lambda c, v: False):
    h = parse_header(buf)
    if h["length"] != len(buf):
        raise RefError("message length field does not equal the byte count")
    return h, parse_tree(buf[20:], is_grouped, 20)


def split_frames(stream: bytes):
    """Split a byte stream into complete frames by their length fields; returns
    (frames, remainder)."""
    frames = []
    pos = 0
    while len(stream) - pos >= 20:
        ln = int.from_bytes(stream[pos + 1:pos + 4], "big")
        if ln < 20 or len(stream) - pos < ln:
            break
        frames.append(stream[pos:pos + ln])
        pos += ln
    return frames, stream[pos:]


def find(tree: list[RAvp], path) -> list[RAvp]:
    """Reference search: AVPs located at the (code, vendor) path."""
    cur = tree
    for i, (c, v) in enumerate(path):
        last = i == len(path) - 1
        nxt = []
        for a in cur:
            if a.code == c and a.vendor == v:
                if last:
                    nxt.append(a)
                elif a.children is not None:
                    nxt.extend(a.children)
        cur = nxt
    return cur


def walk(tree):
    for a in tree:
        yield a
        if a.children:
            yield from walk(a.children)


def max_depth(tree) -> int:
    d = 0
    for a in walk(tree):
        d = max(d, a.depth + 1)
    return d


# --------------------------------------------------------------------------
# the dictionary, as data
# --------------------------------------------------------------------------
TYPE_NAMES = {
    "AvpAddress": "Address", "AvpFloat32": "Float32", "AvpFloat64": "Float64",
    "AvpGrouped": "Grouped", "AvpInteger32": "Integer32",
    "AvpInteger64": "Integer64", "AvpOctetString": "OctetString",
    "AvpUnsigned32": "Unsigned32", "AvpUnsigned64": "Unsigned64",
    "AvpUtf8String": "UTF8String", "AvpTime": "Time", "Avp": "untyped",
}


def load_dictionary():
    """[(code, vendor, typename, name, default_M, cls)] for every entry."""
    from diameter.message.avp.dictionary import AVP_DICTIONARY, AVP_VENDOR_DICTIONARY
    out = []
    for code, e in AVP_DICTIONARY.items():
        out.append((code, 0, TYPE_NAMES.get(e["type"].__name__, "custom"),
                    e["name"], e.get("mandatory"), e["type"]))
    for vendor, d in AVP_VENDOR_DICTIONARY.items():
        for code, e in d.items():
            out.append((code, vendor, TYPE_NAMES.get(e["type"].__name__, "custom"),
                        e["name"], e.get("mandatory"), e["type"]))
    return out


_grouped_cache = None


def dict_is_grouped(code: int, vendor: int) -> bool:
    global _grouped_cache
    if _grouped_cache is None:
        _grouped_cache = {(c, v) for c, v, t, *_ in load_dictionary() if t == "Grouped"}
    return (code, vendor) in _grouped_cache


def reset_caches():
    global _grouped_cache
    _grouped_cache = None
