"""Bridges from specs (dv.strategies) to library objects, plus value
comparators.  This is the only place where the codec checks touch the
library's construction API."""
from __future__ import annotations

import datetime
import math
import struct

from . import refcodec as R
from . import strategies as S


def build_lib_avp(D: S.Dict, a):
    """avp spec -> (library Avp built through Avp.new, reference bytes)."""
    from diameter.message.avp import Avp
    ref = S.ref_encode(D, a)
    if (a["code"], a["vendor"]) not in D.by_key:
        # no dictionary entry: the documented way is a generic Avp built by hand
        py, _ = S.materialize(a["v"])
        flags = (0x40 if a["m"] else 0) | (0x20 if a["p"] else 0)
        return Avp(a["code"], a["vendor"], py, flags), ref
    if a["v"]["t"] == "Grouped":
        kids = [build_lib_avp(D, k)[0] for k in a["v"]["j"]]
        lib = Avp.new(a["code"], a["vendor"], value=kids, is_mandatory=a["m"],
                      is_private=a["p"])
    else:
        py, _ = S.materialize(a["v"])
        lib = Avp.new(a["code"], a["vendor"], value=py, is_mandatory=a["m"],
                      is_private=a["p"])
    return lib, ref


def same_float(got, exp) -> bool:
    if not isinstance(got, float):
        return False
    if exp != exp:
        return got != got
    return struct.pack("!d", got) == struct.pack("!d", exp)


def value_matches(vs, got) -> str | None:
    """Compare a decoded library value with the value spec.  Returns None when
    equal, otherwise a short description."""
    t, j = vs["t"], vs["j"]
    if t in S.INT_RANGES:
        if type(got) is not int or got != j:
            return f"int {got!r} != {j!r}"
    elif t == "Float32":
        if not same_float(got, S.f32_from_bits(j)):
            return f"float32 {got!r} != bits {j:#x}"
    elif t == "Float64":
        if not same_float(got, S.f64_from_bits(j)):
            return f"float64 {got!r} != bits {j:#x}"
    elif t in ("OctetString", "untyped"):
        if got != bytes.fromhex(j):
            return "octets differ"
    elif t == "UTF8String":
        if got != j:
            return "text differs"
    elif t == "Address":
        fam, canon = R.addr_canon(R.dec_address(R.enc_address(j)))
        try:
            if not (isinstance(got, tuple) and len(got) == 2 and
                    R.addr_canon(got) == (fam, canon)):
                return f"address {got!r} != {j!r}"
        except Exception as e:  # unparsable text returned
            return f"address {got!r} unparsable ({e})"
    elif t == "Time":
        y, mo, d, h, mi, s = R.fields_from_unix(j)
        if got != datetime.datetime(y, mo, d, h, mi, s):
            return f"time {got!r} != unix {j}"
    else:
        raise ValueError(t)
    return None


def diff_class(out: bytes, ref: bytes) -> str:
    """Name the first RFC 6733 field in which two single-AVP encodings differ."""
    if len(out) >= 8 and len(ref) >= 8:
        if out[:4] != ref[:4]:
            return "code"
        if out[4] != ref[4]:
            return "flags"
        if out[5:8] != ref[5:8]:
            return "length"
        if ref[4] & 0x80 and out[8:12] != ref[8:12]:
            return "vendor"
        hdr = 12 if ref[4] & 0x80 else 8
        ln = int.from_bytes(ref[5:8], "big")
        if out[hdr:ln] != ref[hdr:ln]:
            return "payload"
        return "padding"
    return "malformed"


def time_class(u: int) -> str:
    if u < R.ERA - R.NTP_UNIX_DELTA - 3600:
        return "era0"
    if u < R.ERA - R.NTP_UNIX_DELTA:
        return "era0-last-hour"
    return "era1"
