"""History execution for node-level checks: a script is a list of JSON-able
events applied to a NodeWorld; observers run at the quiescent point after
every event.  Also ddmin shrinking of scripts (count-bounded, deterministic).
"""
from __future__ import annotations

from . import world as W
from .common import HarnessError


def apply_event(w: W.NodeWorld, ev: dict):
    """Apply one event; returns False when the event is not applicable in the
    current state (it is then skipped, which keeps shrunk scripts valid)."""
    op = ev["op"]
    conns = w.conns

    def conn():
        i = ev.get("c", 0)
        return conns[i] if 0 <= i < len(conns) else None

    if op == "accept":
        c = w.accept(ev.get("ip", "10.1.1.1"))
        return c is not None
    if op == "handshake_in":
        c = w.handshake_in(ev.get("host", "peer1.example"), tuple(ev.get("auth", (4,))),
                           tuple(ev.get("acct", ())), ev.get("ip", "10.1.1.1"), ev.get("hbh", 0x100))
        return c is not None
    if op == "feed":
        c = conn()
        if c is None:
            return False
        return w.feed_msg(c, ev["m"], ev.get("cuts"))
    if op == "feed_raw":
        c = conn()
        if c is None:
            return False
        return w.feed(c, bytes.fromhex(ev["hex"]), ev.get("cuts"))
    if op == "advance":
        w.advance(ev["dt"])
        return True
    if op == "peer_close":
        c = conn()
        if c is None or c.peer_closed:
            return False
        w.peer_close(c)
        return True
    if op == "peer_reset":
        c = conn()
        if c is None or c.peer_closed:
            return False
        w.peer_reset(c, ev.get("err", 104))
        return True
    if op == "connect_result":
        c = conn()
        if c is None or c.remote.sock.state != "connecting":
            return False
        w.connect_result(c, ev.get("ok", True), ev.get("err", 111))
        return True
    if op == "answer_cer":
        c = conn()
        if c is None:
            return False
        return bool(w.answer_cer(c, ev.get("result", 2001), tuple(ev.get("auth", (4,))), tuple(ev.get("acct", ())),
                                 ev.get("host")))
    if op == "dial_plan":
        w.dial_plan.setdefault(ev["ip"], []).extend(ev["outcomes"])
        return True
    if op == "tx_plan":
        c = conn()
        if c is None:
            return False
        for s in ev["plan"]:
            c.remote.sock.tx_plan.append(tuple(s) if isinstance(s, list) else s)
        return True
    if op == "fail_writes":
        c = conn()
        if c is None:
            return False
        c.remote.fail_writes(ev.get("err", 32))
        return True
    if op == "stop":
        if w.stop_box is not None:
            return False
        w.stop(ev.get("force", False), ev.get("wait", 180))
        return True
    if op == "run":
        w.run()
        return True
    raise HarnessError(f"unknown event {op}")


def execute(cfg: dict, events: list, observer=None, custom=None):
    """Build a world, start it, apply the events.  observer(world, index, event,
    applied) runs after every event at quiescence; custom(world, event) may
    handle check-specific events (return None to fall through)."""
    w = W.NodeWorld(cfg)
    try:
        w.start()
        if observer:
            observer(w, -1, {"op": "start"}, True)
        for i, ev in enumerate(events):
            applied = None
            if custom is not None:
                applied = custom(w, ev)
            if applied is None:
                applied = apply_event(w, ev)
            if observer:
                observer(w, i, ev, applied)
            if w.k.livelock or w.k.dead:
                break
        return w
    except BaseException:
        w.close()
        raise


def ddmin(events: list, fails, max_tests: int = 150):
    """Classic ddmin over the event list; `fails(sub)` re-executes.  Bounded by
    a test count (never by time)."""
    tests = 0
    n = 2
    cur = list(events)
    while len(cur) >= 2 and tests < max_tests:
        chunk = max(1, len(cur) // n)
        subsets = [cur[i:i + chunk] for i in range(0, len(cur), chunk)]
        reduced = False
        for i in range(len(subsets)):
            comp = [e for j, s in enumerate(subsets) if j != i for e in s]
            tests += 1
            if comp and fails(comp):
                cur = comp
                n = max(n - 1, 2)
                reduced = True
                break
            if tests >= max_tests:
                break
        if not reduced:
            if n >= len(cur):
                break
            n = min(len(cur), n * 2)
    return cur
