"""KNOWN_FINDINGS.txt: `known:` lines suppress exactly one signature each,
`fixed:` lines are documentation and suppress nothing.  Never written at run
time.

    known: property=C09 sig=<signature> <free text: failing input / history>
    fixed: property=C01 <commit> <what failed>
"""
from __future__ import annotations

import os
import re

from .common import VERIF_DIR

PATH = os.path.join(VERIF_DIR, "KNOWN_FINDINGS.txt")
_LINE = re.compile(r"^known:\s+property=(\S+)\s+sig=(\S+)\s*(.*)$")


def load() -> list[dict]:
    out = []
    if not os.path.exists(PATH):
        return out
    with open(PATH) as f:
        for line in f:
            m = _LINE.match(line.strip())
            if m:
                out.append({"property": m.group(1), "sig": m.group(2),
                            "text": m.group(3)})
    return out


def known_for(pid: str) -> list[dict]:
    return [k for k in load() if k["property"] == pid]


def match(known: list[dict], sig: str):
    for k in known:
        if k["sig"] == sig or (k["sig"].endswith("*") and sig.startswith(k["sig"][:-1])):
            return k
    return None


def is_known(pid: str, sig: str) -> bool:
    return match(known_for(pid), sig) is not None
