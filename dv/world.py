"""E4 -- NodeWorld: a real diameter Node running inside the simulation kernel,
virtual peers played by the harness, a transcript, and the monitors shared by
all node-level checks.

Everything that drives a world is a JSON-able *event*; a list of events (the
script) plus the configuration is the replay / shrink unit.
"""
from __future__ import annotations

import errno as _errno

from . import refcodec as R
from . import simkernel as sk
from .common import HarnessError

NODE_HOST = "node.example"
NODE_REALM = "example"
NODE_IP = "10.0.0.1"
APP_RELAY = 0xffffffff

# AVP codes used by the peer-side message builders (RFC 6733)
SESSION_ID, ORIGIN_HOST, ORIGIN_REALM, DEST_REALM, DEST_HOST = 263, 264, 296, 283, 293
RESULT_CODE, AUTH_APP, ACCT_APP, VSA_ID, HOST_IP, VENDOR_ID = 268, 258, 259, 260, 257, 266
PRODUCT_NAME, ORIGIN_STATE, DISC_CAUSE, FAILED_AVP, ERROR_MSG = 269, 278, 273, 279, 281
SUPPORTED_VENDOR, INBAND_SEC, FIRMWARE = 265, 299, 267
CMD_CE, CMD_DW, CMD_DP = 257, 280, 282


def u32(v):
    return v.to_bytes(4, "big")


def A(code, data, flags=0x40, vendor=0):
    return R.enc_avp(code, vendor, flags, data)


# ---------------------------------------------------------------------------
# peer-side message builders (E1; independent of the library encoder)
# ---------------------------------------------------------------------------
def build_msg(m: dict) -> bytes:
    k = m["k"]
    host = m.get("host", "peer1.example")
    host = host if isinstance(host, bytes) else host.encode()       # bytes: identities that are not UTF-8
    realm = m.get("realm", NODE_REALM)
    realm = realm if isinstance(realm, bytes) else realm.encode()
    hbh, e2e = m.get("hbh", 1), m.get("e2e", 1)
    flags = m.get("flags")
    body = b""
    if not m.get("no_origin"):
        body += A(ORIGIN_HOST, host) + A(ORIGIN_REALM, realm)
    if k == "CER":
        host_ip = bytes.fromhex(m["host_ip_raw"]) if m.get("host_ip_raw") is not None else b"\x00\x01" + bytes([10, 1, 1, m.get("ipn", 1)])
        body += A(HOST_IP, host_ip) + A(VENDOR_ID, u32(m.get("vendor", 1)))
        body += A(PRODUCT_NAME, b"verif-peer", 0)
        for a in m.get("auth", []):
            body += A(AUTH_APP, u32(a))
        for a in m.get("acct", []):
            body += A(ACCT_APP, u32(a))
        for (vid, auth, acct) in m.get("vsa", []):
            inner = A(VENDOR_ID, u32(vid))
            if auth is not None:
                inner += A(AUTH_APP, u32(auth))
            if acct is not None:
                inner += A(ACCT_APP, u32(acct))
            body += A(VSA_ID, inner)
        return R.enc_message(1, 0x80 if flags is None else flags, CMD_CE, 0, hbh, e2e, body)
    if k == "CEA":
        rc = m.get("result", 2001)
        pre = b"" if m.get("no_result") else A(RESULT_CODE, u32(rc))
        body = pre + body
        body += A(HOST_IP, b"\x00\x01" + bytes([10, 1, 1, 1])) + A(VENDOR_ID, u32(1)) + A(PRODUCT_NAME, b"verif-peer", 0)
        for a in m.get("auth", []):
            body += A(AUTH_APP, u32(a))
        for a in m.get("acct", []):
            body += A(ACCT_APP, u32(a))
        return R.enc_message(1, 0x00 if flags is None else flags, CMD_CE, 0, hbh, e2e, body)
    if k == "DWR":
        return R.enc_message(1, 0x80 if flags is None else flags, CMD_DW, 0, hbh, e2e, body)
    if k == "DWA":
        pre = b"" if m.get("no_result") else A(RESULT_CODE, u32(m.get("result", 2001)))
        return R.enc_message(1, 0x00 if flags is None else flags, CMD_DW, 0, hbh, e2e, pre + body)
    if k == "DPR":
        body += A(DISC_CAUSE, u32(m.get("cause", 0)))
        return R.enc_message(1, 0x80 if flags is None else flags, CMD_DP, 0, hbh, e2e, body)
    if k == "DPA":
        pre = b"" if m.get("no_result") else A(RESULT_CODE, u32(m.get("result", 2001)))
        return R.enc_message(1, 0x00 if flags is None else flags, CMD_DP, 0, hbh, e2e, pre + body)
    if k == "REQ":      # generic application request (Credit-Control by default)
        code = m.get("code", 272)
        app = m.get("app", 4)
        pre = b"" if m.get("no_session") else A(SESSION_ID, m.get("sid", "s;1").encode())
        tail = b""
        if not m.get("no_dest_realm"):
            tail += A(DEST_REALM, m.get("dest_realm", NODE_REALM).encode())
        if code == 272 and not m.get("bare"):
            tail += A(AUTH_APP, u32(app)) + A(461, b"ctx@verif") + A(416, u32(m.get("rtype", 1))) + A(415, u32(m.get("rnum", 0)))
        for extra in m.get("extra", []):
            tail += bytes.fromhex(extra)
        fl = (0xc0 | (0x10 if m.get("T") else 0)) if flags is None else flags
        return R.enc_message(1, fl, code, app, hbh, e2e, pre + body + tail)
    if k == "ANS":      # generic application answer
        code = m.get("code", 272)
        app = m.get("app", 4)
        pre = b"" if m.get("no_session") else A(SESSION_ID, m.get("sid", "s;1").encode())
        rc = b"" if m.get("no_result") else A(RESULT_CODE, u32(m.get("result", 2001)))
        tail = b""
        if code == 272 and not m.get("bare"):
            tail += A(AUTH_APP, u32(app)) + A(416, u32(1)) + A(415, u32(0))
        return R.enc_message(1, 0x40 if flags is None else flags, code, app, hbh, e2e, pre + rc + body + tail)
    if k == "RAW":
        return bytes.fromhex(m["hex"])
    raise HarnessError(f"unknown message kind {k}")


class Frame:
    __slots__ = ("t", "raw", "h", "tree")

    def __init__(self, t, raw):
        self.t = t
        self.raw = raw
        self.h = R.parse_header(raw)
        try:
            self.tree = R.parse_tree(raw[20:], R.dict_is_grouped, 20)
        except R.RefError:
            self.tree = None

    @property
    def is_request(self):
        return bool(self.h["flags"] & 0x80)

    @property
    def code(self):
        return self.h["code"]

    def key(self):
        return (self.h["code"], self.h["app_id"], self.h["hbh"], self.h["e2e"])

    def avp(self, code, vendor=0):
        if self.tree is None:
            return None
        for a in self.tree:
            if a.code == code and a.vendor == vendor:
                return a
        return None

    def avps(self, code, vendor=0):
        return [a for a in (self.tree or []) if a.code == code and a.vendor == vendor]

    def result_code(self):
        a = self.avp(RESULT_CODE)
        return int.from_bytes(a.data, "big") if a is not None and len(a.data) == 4 else None

    def brief(self):
        names = {257: "CE", 280: "DW", 282: "DP"}
        n = names.get(self.code, str(self.code))
        n += "R" if self.is_request else "A"
        rc = self.result_code()
        return f"{n}{'' if rc is None else '/' + str(rc)}@{self.t - sk.START_TIME:g}"


class Conn:
    """Harness view of one transport connection (either direction)."""

    def __init__(self, world, remote, idx):
        self.world = world
        self.remote = remote
        self.idx = idx
        self.fed: list = []            # (t, frame bytes) fully fed frames
        self._out_pos = 0
        self._out_buf = b""
        self.out: list[Frame] = []     # frames written by the node
        self.in_frames: list[Frame] = []
        self.peer_closed = False
        self.host = None               # identity the harness uses on this connection

    def refresh(self):
        log = self.remote.sock.tx_log
        while self._out_pos < len(log):
            t, data = log[self._out_pos]
            self._out_pos += 1
            self._out_buf += data
            while len(self._out_buf) >= 20:
                ln = int.from_bytes(self._out_buf[1:4], "big")
                if ln < 20 or len(self._out_buf) < ln:
                    break
                self.out.append(Frame(t, self._out_buf[:ln]))
                self._out_buf = self._out_buf[ln:]
        return self.out

    @property
    def node_closed(self):
        return self.remote.sock.closed


TRANSPORT_COUNTS: dict = {}    # worlds built per transport in this process (reported by the checks' evidence)
STEP_HOOKS: list = []          # callables(world, label) run at quiescent points (cross-property monitors)


class NodeWorld:
    def _hooks(self, label):
        for h in STEP_HOOKS:
            h(self, label)

    def __init__(self, cfg: dict):
        self.cfg = cfg
        self.mods = sk.load_node()
        self.k = sk.Kernel(seed=cfg.get("sched_seed", 0),
                           policy=cfg.get("policy", "fifo"),
                           yield_all=cfg.get("yield_all", False)).install()
        self.net = self.k.net
        if cfg.get("rng") is not None:
            self.k.rng = cfg["rng"]              # a scripted random.Random for the code under test
        self.conns: list[Conn] = []
        self.requests_seen: list[dict] = []      # handle_request invocations
        self.answers_seen: list[dict] = []       # handle_answer invocations
        self.calls: list[dict] = []              # harness calls into the application API
        self.route_select_calls: list[dict] = []
        self.node = None
        self.peers = []
        self.apps = []
        self.stop_box = None
        self.dial_plan: dict = {ip: [tuple(o) if isinstance(o, list) else o for o in plan]
                                for ip, plan in (cfg.get("dial_plan") or {}).items()}        # peer ip -> list of outcomes
        self.default_dial = cfg.get("default_dial", "inprogress")
        self.behaviour_fn = None
        self._build()

    # ---- construction ---------------------------------------------------
    def _build(self):
        cfg = self.cfg
        Node = self.mods["node"].Node
        appmod = self.mods["application"]
        listen = cfg.get("listen", True)
        # "transport": "sctp" - the node listens on SCTP and its peers are configured with ;transport=sctp (the fake
        # pysctp of dv/simkernel.py): the SCTP arms of the dial, accept, write and close paths are the ones exercised
        # Without an explicit choice the transport follows the case's scheduler seed (values 2, 3, 6, 7 -> SCTP), which every
        # node-level generator already draws: the dimension costs no generator change and shrinks with the case.
        self.transport = cfg.get("transport") or ("sctp" if (cfg.get("sched_seed", 0) >> 1) & 1 else "tcp")
        sctp_t = self.transport == "sctp"
        TRANSPORT_COUNTS[self.transport] = TRANSPORT_COUNTS.get(self.transport, 0) + 1
        node = Node(cfg.get("origin_host", NODE_HOST), cfg.get("realm", NODE_REALM),
                    ip_addresses=[NODE_IP] + [f"10.0.0.{i + 2}" for i in range(cfg.get("extra_listen", 0))] if listen else None,
                    tcp_port=3868 if listen and not sctp_t else None, sctp_port=3868 if listen and sctp_t else None,
                    vendor_ids=cfg.get("vendor_ids", [10415, 13019]))
        t = cfg.get("node_timers", {})

        def set_node_timers():
            for name in ("cea", "cer", "dwa", "idle"):
                if name in t:
                    setattr(node, f"{name}_timeout", t[name])
            if "wakeup" in t:
                node.wakeup_interval = t["wakeup"]
        if not cfg.get("timers_after_peers"):
            set_node_timers()
        if "retransmit_queue_size" in cfg:
            node.retransmit_queue_size = cfg["retransmit_queue_size"]
        if "validate" in cfg:
            node.validate_received_request_avps = cfg["validate"]
        self.node = node
        for p in cfg.get("peers", []):
            peer = node.add_peer(f"aaa://{p['name']}" + (";transport=sctp" if sctp_t else ""), p.get("realm"), ip_addresses=list(p.get("ip", [])),
                                 is_persistent=p.get("persistent", False), is_default=p.get("default", False))
            for name in ("cea", "cer", "dwa", "idle"):
                if name in p.get("timers", {}):
                    setattr(peer, f"{name}_timeout", p["timers"][name])
            if "reconnect_wait" in p:
                peer.reconnect_wait = p["reconnect_wait"]
            if p.get("always_reconnect"):
                peer.always_reconnect = True
            self.peers.append(peer)
        if cfg.get("timers_after_peers"):
            set_node_timers()          # the node's own timeouts are adjusted after the peers were added
        world = self

        class RecApp(appmod.Application):
            def handle_request(self, message):
                world._on_request(self, message)

            def handle_answer(self, message):
                world._on_answer(self, message)

        class RecThreadingApp(appmod.ThreadingApplication):
            def handle_request(self, message):
                return world._on_request(self, message)

            def handle_answer(self, message):
                world._on_answer(self, message)

        for i, a in enumerate(cfg.get("apps", [])):
            if a.get("kind", "basic") == "threading":
                app = RecThreadingApp(a["app_id"], is_acct_application=a.get("acct", False),
                                      is_auth_application=a.get("auth", not a.get("acct", False)),
                                      max_threads=a.get("max_threads", 0))
            else:
                app = RecApp(a["app_id"], is_acct_application=a.get("acct", False),
                             is_auth_application=a.get("auth", not a.get("acct", False)))
            app._verif_idx = i
            app._verif_cfg = a
            self.apps.append(app)
        if cfg.get("select_func"):
            mode = cfg["select_func"]

            def sel(n, app, message, peers):
                names = [p.node_name for p in peers]
                world.route_select_calls.append({"app": app._verif_idx, "peers": names, "t": world.k.now})
                order = sorted(peers, key=lambda p: p.node_name)
                return order[-1] if mode == "last" else order[0]
            node.peer_route_select_func = sel
        self.net.dial_policy = self._dial_policy

    def start(self, on_thread=False):
        """on_thread: Node.start() runs on a simulated thread of its own (so that a schedule explorer can interleave
        it with the threads it starts) instead of the driver."""
        for app in self.apps:
            a = app._verif_cfg
            self.node.add_application(app, [self.peers[i] for i in a.get("peers", range(len(self.peers)))],
                                      realms=a.get("realms"))
        if on_thread:
            self.start_box = self.k.spawn(self.node.start, name="starter")
        else:
            self.node.start()
        self.k.run()
        self.sync_dialed()
        self._hooks("start")
        return self

    # ---- callbacks from the code under test ----------------------------------
    def _on_request(self, app, message):
        h = message.header
        rec = {"t": self.k.now, "app": app._verif_idx, "code": h.command_code, "hbh": h.hop_by_hop_identifier,
               "e2e": h.end_to_end_identifier, "app_id": h.application_id,
               "origin": getattr(message, "origin_host", None), "msg": message, "answered": 0}
        self.requests_seen.append(rec)
        behaviour = app._verif_cfg.get("handler", "hold")
        plan = app._verif_cfg.get("handler_plan")
        if plan:
            behaviour = plan[(len([r for r in self.requests_seen if r["app"] == app._verif_idx]) - 1) % len(plan)]
        if self.behaviour_fn is not None:
            behaviour = self.behaviour_fn(rec) or behaviour
        rec["behaviour"] = behaviour
        if behaviour == "raise":
            raise RuntimeError("handler failure injected by the harness")
        if behaviour == "hold-then-raise":
            # the handler has handed the request to a worker of its own (the harness answers it later) and then fails
            raise RuntimeError("handler failure after the request was handed on (injected by the harness)")
        if behaviour == "block-then-hold":
            # a handler of a basic application that takes its time (it runs in the connection's reader thread)
            sk._sim_sleep(app._verif_cfg.get("slow_s", 3))
            return None
        if behaviour == "none" or behaviour == "hold":
            return None
        if behaviour == "slow":
            sk._sim_sleep(app._verif_cfg.get("slow_s", 3))
        if behaviour == "very-slow":
            sk._sim_sleep(7)          # longer than the 5 s a queued request waits for a free slot
        if behaviour == "answer-experimental":
            # RFC 6733 7.6: an answer may carry Experimental-Result instead of Result-Code (usual on 3GPP interfaces)
            from diameter.message.avp import Avp
            from diameter.message import constants as C_
            ans = app.generate_answer(message)
            self._fill_answer(ans, message)
            er = Avp.new(C_.AVP_EXPERIMENTAL_RESULT)
            er.value = [Avp.new(C_.AVP_VENDOR_ID, value=10415), Avp.new(C_.AVP_EXPERIMENTAL_RESULT_CODE, value=5001)]
            ans.append_avp(er)
        else:
            ans = app.generate_answer(message, result_code=2001)
            self._fill_answer(ans, message)
        if behaviour in ("answer", "slow", "very-slow", "answer-experimental"):
            if isinstance(app, self.mods["application"].ThreadingApplication):
                return ans
            app.send_answer(ans)
            rec["answered"] += 1
        if behaviour == "answer-then-raise":
            # the handler has submitted its answer and fails afterwards (in its own bookkeeping, say)
            app.send_answer(ans)
            rec["answered"] += 1
            raise RuntimeError("handler failure after the answer was submitted (injected by the harness)")
        return None

    @staticmethod
    def _fill_answer(ans, req):
        for name in ("cc_request_type", "cc_request_number"):
            if hasattr(req, name) and getattr(req, name) is not None:
                try:
                    setattr(ans, name, getattr(req, name))
                except Exception:
                    pass

    def _on_answer(self, app, message):
        h = message.header
        self.answers_seen.append({"t": self.k.now, "app": app._verif_idx, "code": h.command_code,
                                  "hbh": h.hop_by_hop_identifier, "e2e": h.end_to_end_identifier})

    # ---- dialling ------------------------------------------------------------------
    def _dial_policy(self, sock, addr):
        plan = self.dial_plan.get(addr[0])
        out = plan.pop(0) if plan else self.default_dial
        if isinstance(out, list):
            out = tuple(out)
        return out

    def sync_dialed(self):
        """Wrap connections the node has dialled since the last call."""
        known = {c.remote for c in self.conns}
        new = []
        for r in self.net.dialed:
            if r not in known:
                c = Conn(self, r, len(self.conns))
                self.conns.append(c)
                new.append(c)
        return new

    # ---- harness actions --------------------------------------------------------------
    def accept(self, peer_ip="10.1.1.1"):
        r = self.net.connect_to(NODE_IP, 3868, peer_ip)
        if r is None:
            return None
        c = Conn(self, r, len(self.conns))
        self.conns.append(c)
        self.k.run()
        self._hooks("accept")
        return c

    def feed(self, c: Conn, data: bytes, cuts=None, run=True):
        if c.remote.sock.closed or c.peer_closed:
            return False
        c.remote.send(data, cuts)
        frames, _ = R.split_frames(data)
        for f in frames:
            c.fed.append((self.k.now, f))
            c.in_frames.append(Frame(self.k.now, f))
        if run:
            self.k.run()
            self.sync_dialed()
            self._hooks("feed")
        return True

    def feed_msg(self, c: Conn, m: dict, cuts=None, run=True):
        return self.feed(c, build_msg(m), cuts, run)

    def peer_close(self, c: Conn):
        c.peer_closed = True
        c.remote.close()
        self.k.run()
        self.sync_dialed()
        self._hooks("peer_close")

    def peer_reset(self, c: Conn, err=_errno.ECONNRESET):
        c.peer_closed = True
        c.remote.reset(err)
        self.k.run()
        self.sync_dialed()
        self._hooks("peer_reset")

    def connect_result(self, c: Conn, ok=True, err=_errno.ECONNREFUSED):
        c.remote.complete_connect(ok, err)
        self.k.run()
        self.sync_dialed()
        self._hooks("connect_result")

    def advance(self, dt):
        if STEP_HOOKS and dt > 1:
            # observe every whole second on the way
            whole = int(dt)
            for _ in range(whole):
                self.k.advance(1)
                self.sync_dialed()
                self._hooks("advance")
            if dt - whole > 0:
                self.k.advance(dt - whole)
        else:
            self.k.advance(dt)
        self.sync_dialed()
        self._hooks("advance")

    def run(self):
        self.k.run()
        self.sync_dialed()
        self._hooks("run")

    def handshake_in(self, host="peer1.example", auth=(4,), acct=(), ip="10.1.1.1", hbh=0x100, spelled=None, **kw):
        """accept + CER for a configured peer; returns the Conn.  `spelled`: the peer's own spelling of its
        identity (DiameterIdentity is case-insensitive); Conn.host keeps the configured name."""
        c = self.accept(ip)
        if c is None:
            return None
        c.host = host
        self.feed_msg(c, dict({"k": "CER", "host": spelled or host, "auth": list(auth), "acct": list(acct),
                               "hbh": hbh, "e2e": hbh}, **kw))
        return c

    def answer_cer(self, c: Conn, result=2001, auth=(4,), acct=(), host=None, spelled=None, **kw):
        """answer the node's outstanding CER on an outbound connection."""
        c.refresh()
        cers = [f for f in c.out if f.code == CMD_CE and f.is_request]
        if not cers:
            return False
        f = cers[-1]
        c.host = host or c.host or "peer1.example"
        return self.feed_msg(c, dict({"k": "CEA", "host": spelled or c.host, "result": result, "auth": list(auth),
                                      "acct": list(acct), "hbh": f.h["hbh"], "e2e": f.h["e2e"]}, **kw))

    def app_call(self, fn, *args, name="appcall"):
        """Run an application API call on a harness-owned simulated thread."""
        box = self.k.spawn(fn, name=name, args=args)
        rec = {"t": self.k.now, "box": box, "name": name}
        self.calls.append(rec)
        self.k.run()
        self.sync_dialed()
        self._hooks("app_call")
        return rec

    def submit_answer(self, req_rec, result_code=2001, name="answerer"):
        """An application answers a request it was handed earlier (held)."""
        app = self.apps[req_rec["app"]]
        out = {"exc": None}

        def do():
            ans = app.generate_answer(req_rec["msg"], result_code=result_code)
            self._fill_answer(ans, req_rec["msg"])
            app.send_answer(ans)
        call = self.app_call(do, name=name)
        req_rec["answered"] += 1
        return call

    def stop(self, force=False, wait_timeout=180):
        self.stop_box = self.k.spawn(lambda: self.node.stop(wait_timeout=wait_timeout, force=force), name="stopper")
        self.k.run()
        return self.stop_box

    def close(self):
        self.k.shutdown()

    # ---- observation -------------------------------------------------------------------------
    def node_conn_for(self, c: Conn):
        """The PeerConnection object serving harness connection c, if still tabled."""
        for ident, s in list(self.node.peer_sockets.items()):
            if s is c.remote.sock:
                return self.node.connections.get(ident)
        return None

    def all_node_conns(self):
        return list(self.node.connections.values())

    def summary(self):
        out = []
        for c in self.conns:
            c.refresh()
            out.append({"conn": c.idx, "dir": c.remote.direction,
                        "in": [f.brief() for f in c.in_frames], "out": [f.brief() for f in c.out],
                        "node_closed": c.node_closed})
        return out


# ---------------------------------------------------------------------------
# monitors (pure functions of the world's observable state)
# ---------------------------------------------------------------------------
def monitor_threads(w: NodeWorld):
    """[(signature suffix, detail)] for simulated threads that died abnormally."""
    out = []
    for e in w.k.errors:
        if e["role"] == "harness":
            continue
        fn = e["thread"].split("(")[-1].rstrip(")") if "(" in e["thread"] else e["thread"]
        out.append((f"{fn}/{e['exc_type']}", f"{e['thread']} died: {e['exc']} | {e['tb'][-400:]}"))
    if w.k.livelock:
        out.append(("livelock", "threads keep switching without quiescing"))
    return out


def monitor_answers(w: NodeWorld):
    """C07: every answer written by the node matches exactly one earlier request
    received on that connection, not answered before."""
    out = []
    for c in w.conns:
        c.refresh()
        events = [(f.t, 0, i, "in", f) for i, f in enumerate(c.in_frames)] + \
                 [(f.t, 1, i, "out", f) for i, f in enumerate(c.out)]
        events.sort(key=lambda e: (e[0], e[1], e[2]))
        open_reqs: dict = {}
        answered: set = set()
        last_in = None
        for t, _, _, d, f in events:
            if d == "in":
                last_in = f
                if f.is_request:
                    open_reqs[f.key()] = open_reqs.get(f.key(), 0) + 1
                continue
            if f.is_request:
                continue
            k = f.key()
            if open_reqs.get(k, 0) > 0:
                open_reqs[k] -= 1
                answered.add(k)
            elif k in answered:
                out.append(("duplicate-answer", c.idx,
                            f"conn {c.idx}: second answer {f.brief()} for request {k}"))
            else:
                echoed = any((not g.is_request) and g.key() == k for g in c.in_frames if g.t <= t)
                trig = "an answer" if echoed else "no matching request"
                out.append(("unsolicited-answer/" + ("to-answer" if trig == "an answer" else "no-request"), c.idx,
                            f"conn {c.idx}: node sent answer {f.brief()} {k} in reaction to {trig}"
                            f" (last received: {last_in.brief() if last_in else None})"))
    return out


def monitor_tables(w: NodeWorld):
    """C13 invariants over the public tables, evaluated at a quiescent point."""
    peer_mod = w.mods["peer"]
    node = w.node
    out = []
    CLOSED = peer_mod.PEER_CLOSED
    READY = peer_mod.PEER_READY_STATES
    conns = dict(node.connections)
    for name, peer in node.peers.items():
        pc = peer.connection
        if pc is not None:
            if pc.ident not in conns or conns[pc.ident] is not pc:
                out.append(("peer-connection-not-tabled", f"{name}.connection {pc.ident} is not in node.connections"))
            elif pc.state == CLOSED:
                out.append(("peer-connection-closed", f"{name}.connection is CLOSED"))
            elif (pc.node_name or pc.host_identity) and name not in (pc.node_name, pc.host_identity):
                out.append(("peer-connection-foreign", f"{name}.connection belongs to {pc.node_name or pc.host_identity}"))
        # whose connection it is: the peer it was opened towards / that identified itself in the CER (node_name);
        # the identity an answering host advertises does not hand the connection to another configured peer
        live = [c for c in conns.values() if c.state != CLOSED and
                ((c.node_name or c.host_identity or "").lower() == name) and
                (c.is_sender or c.state in READY or c.state in (peer_mod.PEER_DISCONNECTING, peer_mod.PEER_CLOSING))]
        if live and pc is None:
            out.append(("live-connection-unreferenced",
                        f"{name} has live connection(s) {[c.ident for c in live]} but peer.connection is None"))
        if pc is None and peer.last_connect is not None and peer.last_disconnect is None and not live:
            out.append(("disconnect-time-missing", f"{name}: connection removed but last_disconnect unset"))
        if pc is None and peer.last_disconnect is not None and peer.disconnect_reason is None:
            out.append(("disconnect-reason-missing", f"{name}: connection removed but disconnect_reason unset"))
    for ident, c in conns.items():
        if c.state == CLOSED:
            # a connection that closed itself is removed by the I/O loop at its next wake-up: transient
            continue
    tabled = set(conns)
    for ident in node.peer_sockets:
        if ident not in tabled:
            out.append(("socket-without-connection", f"peer_sockets has {ident} which is not in connections"))
    for ident, c in list(getattr(node, "_half_ready_connections", {}).items()):
        if ident not in tabled:
            out.append(("half-ready-stale", f"_half_ready_connections keeps {ident} after its connection was removed"))
    for fileno, c in list(node.socket_peers.items()):
        if c.ident not in tabled or conns.get(c.ident) is not c:
            out.append(("socket-peers-stale", f"socket_peers[{fileno}] still maps to removed connection {c.ident}"))
    for ident, s in node.peer_sockets.items():
        if getattr(s, "closed", False):
            out.append(("closed-socket-tabled", f"socket of {ident} is closed but still in peer_sockets"))
    # sockets of removed connections must be closed
    tabled_socks = set(map(id, node.peer_sockets.values())) | set(map(id, list(node.tcp_sockets) + list(node.sctp_sockets)))
    for s in w.net.sockets:
        if s.closed or id(s) in tabled_socks or s.state == "listening":
            continue
        if s.remote is not None and s.remote.direction == "in" and s in _backlogged(w):
            continue
        out.append(("socket-leaked", f"socket fd={s.fd} ({s.state}) is open but in no table of the node"))
    # application readiness
    for app in w.apps:
        a = app._verif_cfg
        plist = [w.peers[i] for i in a.get("peers", range(len(w.peers)))]
        any_ready = any(p.connection is not None and p.connection.state in READY for p in plist)
        none_conn = all(p.connection is None for p in plist)
        if any_ready and not app.is_ready.is_set():
            out.append(("app-not-ready", f"app {app._verif_idx} has a ready peer but is_ready is clear"))
        if none_conn and plist and app.is_ready.is_set():
            out.append(("app-ready-without-connection", f"app {app._verif_idx} is ready but none of its peers has a connection"))
    return out


def _backlogged(w):
    out = []
    for lst in w.net.listeners.values():
        out.extend(lst.backlog)
    return out
