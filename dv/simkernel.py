"""E3 -- deterministic simulation kernel.

The real, unmodified `diameter.node` code runs on *simulated* threads: real OS
threads of which exactly one runs at a time (baton passing), that yield only
at blocking primitives (and, when armed, at chosen line events), under a
virtual clock.  `threading`, `queue`, `time`, `select`, `socket`, `os`
(pipe/read/write/urandom) and `random` are replaced for the node modules at
import time through a `sys.modules` window -- no source hook.

Driver (the test body) API:   k = Kernel(seed); k.install()
    k.spawn(fn, name)      run fn on a harness-owned simulated thread
    k.run()                run until quiescent at the current virtual time
    k.advance(dt)          step the clock through all deadlines up to now+dt
    k.shutdown()           kill whatever simulated thread is still alive
"""
from __future__ import annotations

import collections
import errno as _errno
import os as _os
import queue as _rqueue
import random as _rrandom
import select as _rselect
import socket as _rsocket
import sys
import threading as _rt
import time as _rtime
import traceback
import types

from .common import HarnessError

START_TIME = 1_700_000_000.0
WALL_GUARD_S = float(_os.environ.get("VERIF_WALL_GUARD", "60"))

NEW, RUNNABLE, BLOCKED, DONE = "new", "runnable", "blocked", "done"

try:        # thousands of short-lived simulated threads: keep their stacks small
    _rt.stack_size(512 * 1024)
except (ValueError, RuntimeError):
    pass


class KernelExit(BaseException):
    """Raised inside simulated threads when their kernel is torn down."""


class SpinDetected(BaseException):
    """Raised inside a simulated thread that exceeds its progress budget."""


class HarnessTimeout(HarnessError):
    pass


class TCB:
    __slots__ = ("thread", "sem", "state", "pred", "deadline", "name", "role",
                 "exc", "tb", "ident", "owner", "quantum_events", "spun")

    def __init__(self, thread, name, role):
        self.thread = thread
        self.sem = _rt.Semaphore(0)
        self.state = NEW
        self.pred = None
        self.deadline = None
        self.name = name
        self.role = role
        self.exc = None
        self.tb = None
        self.ident = None
        self.owner = None
        self.quantum_events = 0
        self.spun = False

    def __repr__(self):
        return f"<sim {self.name} {self.state}>"


_current: "Kernel | None" = None


def K() -> "Kernel":
    k = _current
    if k is None:
        raise HarnessError("no simulation kernel installed")
    return k


class Kernel:
    def __init__(self, seed: int = 0, policy: str = "fifo", yield_all: bool = False,
                 start_time: float = START_TIME):
        self.now = start_time
        self.start_time = start_time
        self.threads: list[TCB] = []
        self.by_ident: dict[int, TCB] = {}
        self.driver_sem = _rt.Semaphore(0)
        self.running: TCB | None = None
        self.errors: list[dict] = []
        self.rng = _rrandom.Random(seed)          # the code-under-test's `random`
        self.sched_rng = _rrandom.Random(seed ^ 0x5bd1e995)
        self.policy = policy                      # fifo | random
        self.yield_all = yield_all
        self.dead = False
        self.switches = 0
        self.max_switches_per_run = 200_000
        self.livelock = False
        self.net = VNet(self)
        self.last_run_order: list[str] = []
        self.quantum_budget = 3_000_000           # JUMP events per scheduling quantum
        self.preempt_hook = None                  # E5: callable(kernel, tcb, code, line)
        self.chooser = None                       # optional callable(list[TCB]) -> TCB
        self.driver_ident = _rt.get_ident()
        self.time_reads = 0
        self.time_base = start_time
        self.last_time = start_time

    def set_time(self, t: float):
        """Harness only: put the virtual clock at an arbitrary instant."""
        self.now = t
        self.time_base = t
        self.time_reads = 0
        self.last_time = t

    # ---- installation -----------------------------------------------------
    def install(self):
        global _current
        _current = self
        return self

    # ---- identity -----------------------------------------------------------
    def cur(self) -> TCB | None:
        return self.by_ident.get(_rt.get_ident())

    def _require_thread(self) -> TCB:
        if self.dead:
            raise KernelExit()
        t = self.cur()
        if t is None:
            if _rt.get_ident() == self.driver_ident:
                return None
            raise KernelExit()        # a thread of an earlier kernel: let it die
        return t

    # ---- scheduling -----------------------------------------------------------
    def _runnable(self):
        out = []
        now = self.now
        for t in self.threads:
            if t.state == RUNNABLE:
                out.append(t)
            elif t.state == BLOCKED:
                if (t.deadline is not None and t.deadline <= now) or t.pred():
                    out.append(t)
        return out

    def _pick(self) -> TCB | None:
        cands = self._runnable()
        if not cands:
            return None
        if self.chooser is not None:
            t = self.chooser(cands)
        elif self.policy == "random":
            t = cands[self.sched_rng.randrange(len(cands))]
        else:
            t = cands[0]
            # round robin: move to the back
            self.threads.remove(t)
            self.threads.append(t)
        t.state = RUNNABLE
        t.pred = None
        return t

    def _dispatch_from(self, me: TCB | None):
        """Called by the thread giving up the baton (me may be DONE)."""
        self.switches += 1
        if self.switches > self.max_switches_per_run:
            self.livelock = True
            nxt = None
        else:
            nxt = self._pick()
        if nxt is me and me is not None:
            self.running = me
            me.quantum_events = 0
            return
        self.running = nxt
        if nxt is None:
            self.driver_sem.release()
        else:
            nxt.quantum_events = 0
            nxt.sem.release()
        if me is not None and me.state != DONE:
            me.sem.acquire()
            if self.dead:
                raise KernelExit()

    def block(self, pred, timeout=None) -> bool:
        """Block the calling simulated thread until pred() or timeout (virtual
        seconds).  Returns pred()."""
        me = self._require_thread()
        if me is None:
            if pred():
                return True
            raise HarnessError("the driver thread would block on a simulated primitive; "
                               "use Kernel.spawn() for calls that can block")
        if pred():
            if self.yield_all:
                self.yield_point()
                return pred()
            return True
        if timeout is not None and timeout <= 0:
            return False
        me.state = BLOCKED
        me.pred = pred
        me.deadline = None if timeout is None else self.now + timeout
        self._dispatch_from(me)
        me.deadline = None
        return pred()

    def yield_point(self):
        """A point where another runnable thread may be scheduled."""
        me = self.cur()
        if me is None or self.dead:
            return
        me.state = RUNNABLE
        self._dispatch_from(me)

    def maybe_yield(self):
        if self.yield_all:
            self.yield_point()

    # ---- driver side ---------------------------------------------------------------
    def _driver_wait(self):
        if not self.driver_sem.acquire(timeout=WALL_GUARD_S):
            frames = sys._current_frames()
            where = []
            for t in self.threads:
                if t.state != DONE and t.ident in frames:
                    where.append(f"{t.name}: " + "".join(traceback.format_stack(frames[t.ident])[-3:]))
            self.dead = True
            raise HarnessTimeout("wall-clock guard: a simulated thread did not yield within "
                                 f"{WALL_GUARD_S}s\n" + "\n".join(where)[:3000])

    def run(self):
        """Run until no simulated thread is runnable at the current time."""
        if self.dead:
            return
        self.switches = 0
        while True:
            nxt = self._pick()
            if nxt is None or self.livelock:
                return
            self.running = nxt
            nxt.quantum_events = 0
            nxt.sem.release()
            self._driver_wait()

    def next_deadline(self):
        dl = None
        for t in self.threads:
            if t.state == BLOCKED and t.deadline is not None:
                if dl is None or t.deadline < dl:
                    dl = t.deadline
        return dl

    def advance(self, dt: float):
        target = self.now + dt
        self.run()
        while not self.livelock and not self.dead:
            dl = self.next_deadline()
            if dl is None or dl > target:
                break
            self.now = max(self.now, dl)
            self.run()
        self.now = max(self.now, target)
        self.run()

    def spawn(self, fn, name="harness", role="harness", args=()):
        """Start fn(*args) on a harness-owned simulated thread."""
        box = {"done": False, "result": None, "exc": None}

        def body():
            try:
                box["result"] = fn(*args)
            except KernelExit:
                raise
            except Exception as e:       # the caller inspects box["exc"]
                box["exc"] = e
            finally:
                box["done"] = True
        th = SimThread(target=body, name=name)
        th._sim_role = role
        th._sim_swallow = True
        th.start()
        box["thread"] = th
        return box

    def call(self, fn, *args, name="call"):
        """spawn + run to quiescence; returns the box."""
        box = self.spawn(fn, name=name, args=args)
        self.run()
        return box

    def live_threads(self):
        return [t for t in self.threads if t.state not in (DONE,)]

    def shutdown(self):
        """Kill every simulated thread that is still alive."""
        self.dead = True
        for t in list(self.threads):
            if t.state == DONE:
                continue
            t.sem.release()
        for t in list(self.threads):
            th = t.thread
            if t.state != DONE and th.ident is not None:
                _rt.Thread.join(th, 5.0)
        global _current
        if _current is self:
            _current = None

    def record_error(self, tcb: TCB, exc: BaseException):
        self.errors.append({"thread": tcb.name, "role": tcb.role,
                            "exc_type": type(exc).__name__, "exc": repr(exc)[:300],
                            "tb": "".join(traceback.format_exception(type(exc), exc, exc.__traceback__))[-1500:],
                            "time": self.now})


# ===========================================================================
# threading shim
# ===========================================================================
class SimThread(_rt.Thread):
    _sim_role = "code"
    _sim_swallow = False

    def start(self):
        k = K()
        tcb = TCB(self, self.name, self._sim_role)
        self._sim_tcb = tcb
        self._sim_kernel = k
        tcb.owner = getattr(self, "_target", None)
        user_run = self.run

        def bootstrap():
            tcb.ident = _rt.get_ident()
            k.by_ident[tcb.ident] = tcb
            tcb.sem.acquire()
            try:
                if k.dead:
                    return
                user_run()
            except KernelExit:
                pass
            except SpinDetected as e:
                tcb.spun = True
                k.record_error(tcb, e)
            except BaseException as e:
                tcb.exc = e
                k.record_error(tcb, e)
            finally:
                tcb.state = DONE
                k.by_ident.pop(tcb.ident, None)
                if not k.dead:
                    try:
                        k._dispatch_from(tcb)
                    except KernelExit:
                        pass
        self.run = bootstrap
        self.daemon = True
        tcb.state = RUNNABLE
        k.threads.append(tcb)
        _rt.Thread.start(self)
        k.maybe_yield()

    def join(self, timeout=None):
        tcb = getattr(self, "_sim_tcb", None)
        if tcb is None:
            raise RuntimeError("cannot join thread before it is started")
        K().block(lambda: tcb.state == DONE, timeout)

    def is_alive(self):
        tcb = getattr(self, "_sim_tcb", None)
        return tcb is not None and tcb.state != DONE


class SimLock:
    def __init__(self):
        self._locked = False
        self._owner = None

    def acquire(self, blocking=True, timeout=-1):
        k = K()
        if k.yield_all:
            k.yield_point()
        if not self._locked:
            self._locked = True
            self._owner = k.cur()
            return True
        if not blocking:
            return False
        ok = k.block(lambda: not self._locked, None if timeout is None or timeout < 0 else timeout)
        if ok:
            self._locked = True
            self._owner = k.cur()
            return True
        return False

    def release(self):
        if not self._locked:
            raise RuntimeError("release unlocked lock")
        self._locked = False
        self._owner = None
        K().maybe_yield()

    def locked(self):
        return self._locked

    __enter__ = acquire

    def __exit__(self, *a):
        self.release()


class SimRLock:
    def __init__(self):
        self._owner = None
        self._count = 0

    def acquire(self, blocking=True, timeout=-1):
        k = K()
        me = k.cur() or "driver"
        if self._owner is me:
            self._count += 1
            return True
        if self._owner is None:
            self._owner, self._count = me, 1
            return True
        if not blocking:
            return False
        ok = k.block(lambda: self._owner is None, None if timeout is None or timeout < 0 else timeout)
        if ok:
            self._owner, self._count = me, 1
            return True
        return False

    def release(self):
        if self._count <= 0:
            raise RuntimeError("cannot release un-acquired lock")
        self._count -= 1
        if self._count == 0:
            self._owner = None

    __enter__ = acquire

    def __exit__(self, *a):
        self.release()


class SimEvent:
    def __init__(self):
        self._flag = False

    def is_set(self):
        return self._flag

    isSet = is_set

    def set(self):
        self._flag = True
        k = _current
        if k is not None:
            k.maybe_yield()

    def clear(self):
        self._flag = False

    def wait(self, timeout=None):
        return K().block(lambda: self._flag, timeout)


class SimCondition:
    def __init__(self, lock=None):
        self._lock = lock or SimRLock()
        self._gen = 0
        self.acquire = self._lock.acquire
        self.release = self._lock.release

    def __enter__(self):
        return self._lock.__enter__()

    def __exit__(self, *a):
        return self._lock.__exit__(*a)

    def wait(self, timeout=None):
        gen = self._gen
        self._lock.release()
        try:
            return K().block(lambda: self._gen != gen, timeout)
        finally:
            self._lock.acquire()

    def notify(self, n=1):
        self._gen += 1

    def notify_all(self):
        self._gen += 1


class SimSemaphore:
    def __init__(self, value=1):
        self._v = value

    def acquire(self, blocking=True, timeout=None):
        if self._v > 0:
            self._v -= 1
            return True
        if not blocking:
            return False
        if K().block(lambda: self._v > 0, timeout):
            self._v -= 1
            return True
        return False

    def release(self, n=1):
        self._v += n

    __enter__ = acquire

    def __exit__(self, *a):
        self.release()


def _sim_current_thread():
    k = _current
    if k is not None:
        t = k.cur()
        if t is not None:
            return t.thread
    return _rt.current_thread()


def _make_shim(name, real, attrs):
    m = types.ModuleType(name)
    m.__dict__.update(attrs)
    m.__dict__["_real"] = real

    def __getattr__(attr):
        return getattr(real, attr)
    m.__getattr__ = __getattr__
    return m


# ===========================================================================
# queue shim
# ===========================================================================
class SimQueue:
    def __init__(self, maxsize=0):
        self.maxsize = maxsize
        self._q = collections.deque()
        self._unfinished = 0

    def qsize(self):
        return len(self._q)

    def empty(self):
        return not self._q

    def full(self):
        return 0 < self.maxsize <= len(self._q)

    def put(self, item, block=True, timeout=None):
        if self.full():
            if not block:
                raise _rqueue.Full
            if timeout is not None and timeout < 0:
                raise ValueError("'timeout' must be a non-negative number")
            if not K().block(lambda: not self.full(), timeout):
                raise _rqueue.Full
        self._q.append(item)
        self._unfinished += 1
        log = self.__dict__.get("_put_log")
        if log is not None:
            log.append(item)          # harness feature: observed order of put()
        k = _current
        if k is not None:
            k.maybe_yield()

    def get(self, block=True, timeout=None):
        if not self._q:
            if not block:
                raise _rqueue.Empty
            if timeout is not None and timeout < 0:
                raise ValueError("'timeout' must be a non-negative number")
            if not K().block(lambda: bool(self._q), timeout):
                raise _rqueue.Empty
        elif _current is not None and _current.yield_all:
            _current.yield_point()
            if not self._q:
                return self.get(block, timeout)
        return self._q.popleft()

    def put_nowait(self, item):
        return self.put(item, block=False)

    def get_nowait(self):
        return self.get(block=False)

    def task_done(self):
        if self._unfinished <= 0:
            raise ValueError("task_done() called too many times")
        self._unfinished -= 1

    @property
    def unfinished_tasks(self):
        return self._unfinished

    def join(self):
        K().block(lambda: self._unfinished <= 0, None)


# ===========================================================================
# virtual network
# ===========================================================================
def _oserr(code):
    return OSError(code, _os.strerror(code))


class Pipe:
    CAPACITY = 65536

    def __init__(self):
        self.buf = bytearray()
        self.closed_r = False
        self.closed_w = False


class VNet:
    FIRST_FD = 3

    def __init__(self, kernel):
        self.k = kernel
        self.fds: dict[int, object] = {}
        self.listeners: dict[tuple, "VSocket"] = {}
        self.dialed: list["RemoteEnd"] = []       # connections the code under test opened
        self.accepted: list["RemoteEnd"] = []     # connections the harness opened towards it
        self.sockets: list["VSocket"] = []        # every socket ever created
        self.dial_policy = lambda sock, addr: "inprogress"
        self.log: list[tuple] = []
        self.next_port = 40000
        self.pipes: list[Pipe] = []
        self.connect_calls: list[tuple] = []

    def alloc_fd(self, obj) -> int:
        fd = self.FIRST_FD
        while fd in self.fds:
            fd += 1
        self.fds[fd] = obj
        return fd

    def free_fd(self, fd):
        self.fds.pop(fd, None)

    # harness side: open a connection towards a listening socket of the node
    def connect_to(self, ip, port, peer_ip="10.9.9.9") -> "RemoteEnd | None":
        lst = self.listeners.get((ip, port))
        if lst is None or lst.closed:
            return None
        s = VSocket(self, _rsocket.AF_INET, _rsocket.SOCK_STREAM)
        s.state = "connected"
        self.next_port += 1
        s.peer_addr = (peer_ip, self.next_port)
        s.local_addr = (ip, port)
        s.remote = RemoteEnd(self, s, "in")
        lst.backlog.append(s)
        self.accepted.append(s.remote)
        self.log.append((self.k.now, "tcp-connect-in", s.remote.cid, None))
        return s.remote

    def open_sockets(self):
        return [s for s in self.sockets if not s.closed]


class VSocket:
    def __init__(self, net_or_family=None, family=None, type_=None, proto=0, fileno=None):
        if isinstance(net_or_family, VNet):
            net = net_or_family
        else:
            net = K().net
            family, type_ = net_or_family, family
        self.net = net
        self.family = family if family is not None else _rsocket.AF_INET
        self.type = type_ if type_ is not None else _rsocket.SOCK_STREAM
        self.closed = False
        self.state = "new"                 # new listening connecting connected failed
        self.backlog: collections.deque = collections.deque()
        self.local_addr = ("0.0.0.0", 0)
        self.peer_addr = None
        self.rx: collections.deque = collections.deque()
        self.rx_eof = False
        self.rx_err = None
        self.so_error = 0
        self.tx_log: list[tuple] = []
        self.tx_plan: collections.deque = collections.deque()
        self.tx_default = None             # None: accept everything; int: accept at most n per send
        self.tx_blocked = False
        self.tx_hard_err = None
        self.opts: dict = {}
        self.blocking = True
        self.remote: RemoteEnd | None = None
        self.linger_reset = False
        self.fd = net.alloc_fd(self)
        net.sockets.append(self)

    # -- option plumbing
    def setblocking(self, flag):
        self._check_open()
        self.blocking = bool(flag)

    def settimeout(self, t):
        self.blocking = t is None

    def setsockopt(self, level, opt, value):
        self._check_open()
        self.opts[(level, opt)] = value
        if level == _rsocket.SOL_SOCKET and opt == _rsocket.SO_LINGER:
            self.linger_reset = True

    def getsockopt(self, level, opt, buflen=None):
        self._check_open()
        if level == _rsocket.SOL_SOCKET and opt == _rsocket.SO_ERROR:
            e, self.so_error = self.so_error, 0
            return e
        return self.opts.get((level, opt), 0)

    def fileno(self):
        return -1 if self.closed else self.fd

    def _check_open(self):
        if self.closed:
            raise _oserr(_errno.EBADF)

    def getsockname(self):
        self._check_open()
        return self.local_addr

    def getpeername(self):
        self._check_open()
        if self.state != "connected":
            raise _oserr(_errno.ENOTCONN)
        return self.peer_addr

    # -- server side
    def bind(self, addr):
        self._check_open()
        if addr in self.net.listeners and not self.net.listeners[addr].closed:
            raise _oserr(_errno.EADDRINUSE)
        self.local_addr = addr

    def listen(self, backlog=128):
        self._check_open()
        self.state = "listening"
        self.net.listeners[self.local_addr] = self

    def accept(self):
        self._check_open()
        if self.state != "listening":
            raise _oserr(_errno.EINVAL)
        if not self.backlog:
            raise BlockingIOError(_errno.EAGAIN, _os.strerror(_errno.EAGAIN))
        s = self.backlog.popleft()
        self.net.log.append((self.net.k.now, "accept", s.remote.cid, None))
        return s, s.peer_addr

    # -- client side
    def connect(self, addr):
        self._check_open()
        net = self.net
        net.connect_calls.append((net.k.now, addr, self.fd))
        outcome = net.dial_policy(self, addr)
        self.peer_addr = addr
        net.next_port += 1
        self.local_addr = ("10.0.0.1", net.next_port)
        if isinstance(outcome, tuple) and outcome[0] == "sync-error":
            net.log.append((net.k.now, "connect-sync-error", None, (addr, outcome[1])))
            raise _oserr(outcome[1])
        self.remote = RemoteEnd(net, self, "out")
        self.remote.addr = addr
        net.dialed.append(self.remote)
        net.log.append((net.k.now, "connect", self.remote.cid, addr))
        if outcome == "ok":
            self.state = "connected"
            return None
        self.state = "connecting"
        raise BlockingIOError(_errno.EINPROGRESS, _os.strerror(_errno.EINPROGRESS))

    def connect_ex(self, addr):
        try:
            self.connect(addr)
            return 0
        except OSError as e:
            return e.errno

    # -- data
    def recv(self, n, flags=0):
        self._check_open()
        if self.state == "failed" or self.so_error:
            e = self.so_error or _errno.ECONNREFUSED
            self.so_error = 0
            raise _oserr(e)
        if self.state != "connected":
            raise _oserr(_errno.ENOTCONN) if self.state == "new" else \
                BlockingIOError(_errno.EAGAIN, _os.strerror(_errno.EAGAIN))
        if self.rx_err is not None:
            e, self.rx_err = self.rx_err, None
            raise _oserr(e)
        if self.rx:
            chunk = self.rx.popleft()
            if len(chunk) > n:
                self.rx.appendleft(chunk[n:])
                chunk = chunk[:n]
            self.net.log.append((self.net.k.now, "rx", self.remote.cid if self.remote else None, len(chunk)))
            return chunk
        if self.rx_eof:
            return b""
        raise BlockingIOError(_errno.EAGAIN, _os.strerror(_errno.EAGAIN))

    def recv_into(self, buffer, nbytes=0, flags=0):
        mv = memoryview(buffer).cast("B")
        n = nbytes or len(mv)
        chunk = self.recv(min(n, len(mv)), flags)
        mv[:len(chunk)] = chunk
        return len(chunk)

    def send(self, data, flags=0):
        self._check_open()
        if self.state != "connected":
            raise _oserr(_errno.ENOTCONN if self.state == "new" else _errno.EPIPE)
        if self.tx_hard_err is not None:
            raise _oserr(self.tx_hard_err)
        hook = getattr(self.net.k, "io_hook", None)
        if hook is not None:
            # a real send() keeps the caller's buffer exported and releases the GIL for the duration of the
            # system call: other threads run "inside" this call (opt-in scheduling point for the explorer)
            try:
                mv = memoryview(data)
            except TypeError:
                mv = None
            try:
                hook("send")
            finally:
                if mv is not None:
                    mv.release()
        data = bytes(data)
        limit = None
        if self.tx_plan:
            step = self.tx_plan.popleft()
            if isinstance(step, tuple):
                raise _oserr(step[1])
            limit = step
        elif self.tx_default is not None:
            limit = self.tx_default
        n = len(data) if limit is None else max(1, min(limit, len(data)))
        if n:
            self.tx_log.append((self.net.k.now, data[:n]))
            self.net.log.append((self.net.k.now, "tx", self.remote.cid if self.remote else None, data[:n]))
        return n

    def sendall(self, data, flags=0):
        self.send(data)

    def sctp_send(self, msg, to=("", 0), ppid=0, flags=0, stream=0, timetolive=0, context=0, record_file_prefix="RECORD_sctp_traffic", datalogging=False):
        # pysctp's sctpsocket.sctp_send(): same contract as send() for the node (bytes accepted, or OSError)
        return self.send(msg)

    def shutdown(self, how):
        self._check_open()
        # as the kernel does: a socket that is not (or no longer) connected cannot be shut down
        if self.state != "connected" or getattr(self, "was_reset", False):
            raise _oserr(_errno.ENOTCONN)

    def close(self):
        if self.closed:
            return
        self.closed = True
        self.net.free_fd(self.fd)
        if self.state == "listening" and self.net.listeners.get(self.local_addr) is self:
            del self.net.listeners[self.local_addr]
        if self.state == "listening":
            # connections still waiting in the accept queue are reset by the kernel
            while self.backlog:
                s = self.backlog.popleft()
                if not s.closed:
                    s.closed = True
                    self.net.free_fd(s.fd)
                    self.net.log.append((self.net.k.now, "close", s.remote.cid if s.remote else None, "listener-closed"))
                    if s.remote is not None:
                        s.remote.closed_at = self.net.k.now
        self.net.log.append((self.net.k.now, "close", self.remote.cid if self.remote else None,
                             "reset" if self.linger_reset else "fin"))
        if self.remote is not None:
            self.remote.closed_at = self.net.k.now

    def detach(self):
        self.close()

    def __enter__(self):
        return self

    def __exit__(self, *a):
        self.close()

    # -- readiness
    def readable(self):
        if self.closed:
            return False
        if self.state == "listening":
            return bool(self.backlog)
        if self.state == "failed" or self.so_error:
            return True
        if self.state == "connected":
            return bool(self.rx) or self.rx_eof or self.rx_err is not None
        if self.state == "new":
            return True            # a stream socket that was never connected polls as hung up: recv() gives ENOTCONN
        return False

    def writable(self):
        if self.closed:
            return False
        if self.state in ("failed", "new"):
            return True
        if self.state == "connected":
            return not self.tx_blocked
        return False

    def __repr__(self):
        return f"<vsock fd={self.fileno()} {self.state}>"


class RemoteEnd:
    """The harness' handle on the far end of one connection."""
    _n = 0

    def __init__(self, net, sock, direction):
        self.net = net
        self.sock = sock
        self.direction = direction          # "in": harness dialled the node; "out": node dialled
        net._cid = getattr(net, "_cid", 0) + 1
        self.cid = net._cid
        self.addr = None
        self.closed_at = None
        self._consumed = 0
        self.sent_frames: list[bytes] = []

    # bytes towards the node
    def send(self, data: bytes, cuts=None):
        if not data:
            return
        pos = 0
        for c in sorted(set(cuts or [])):
            if pos < c < len(data):
                self.sock.rx.append(data[pos:c])
                pos = c
        self.sock.rx.append(data[pos:])
        self.net.log.append((self.net.k.now, "feed", self.cid, data))

    def close(self):
        self.sock.rx_eof = True
        self.net.log.append((self.net.k.now, "peer-fin", self.cid, None))

    def reset(self, err=_errno.ECONNRESET):
        self.sock.was_reset = True
        self.sock.rx_err = err
        self.sock.tx_hard_err = _errno.EPIPE
        self.sock.rx_eof = True
        self.net.log.append((self.net.k.now, "peer-reset", self.cid, err))

    def fail_writes(self, err=_errno.EPIPE):
        self.sock.tx_hard_err = err

    def complete_connect(self, ok=True, err=_errno.ECONNREFUSED):
        if self.sock.state != "connecting":
            return
        if ok:
            self.sock.state = "connected"
        else:
            self.sock.state = "failed"
            self.sock.so_error = err
        self.net.log.append((self.net.k.now, "connect-result", self.cid, ok))

    # bytes from the node
    def received(self) -> bytes:
        return b"".join(d for _, d in self.sock.tx_log)

    def received_with_times(self):
        return list(self.sock.tx_log)

    @property
    def node_closed(self) -> bool:
        return self.sock.closed


# ===========================================================================
# os / select / time / random / socket shims
# ===========================================================================
class VSctpSocket(VSocket):
    """pysctp's one-to-one style socket (`sctp.sctpsocket_tcp`): a stream-like socket with bindx / connectx /
    sctp_send.  Only what the node uses is offered; multi-homing is reduced to "the first address"."""
    is_sctp = True

    def __init__(self, family=None, sk=None):
        super().__init__(family if family is not None else _rsocket.AF_INET, _rsocket.SOCK_STREAM)
        self.bound_addrs = []

    def bindx(self, sockaddrs, action=None):
        self._check_open()
        addrs = [tuple(a) for a in sockaddrs]
        for a in addrs:
            if a in self.net.listeners and not self.net.listeners[a].closed:
                raise _oserr(_errno.EADDRINUSE)
        self.bound_addrs = addrs
        self.local_addr = addrs[0]

    def listen(self, backlog=128):
        super().listen(backlog)
        for a in self.bound_addrs[1:]:
            self.net.listeners[a] = self

    def connectx(self, sockaddrs, assoc_id=None):
        return self.connect(tuple(sockaddrs[0]))

    def close(self):
        if not self.closed and self.state == "listening":
            for a in self.bound_addrs[1:]:
                if self.net.listeners.get(a) is self:
                    del self.net.listeners[a]
        super().close()


def _make_sctp_module():
    m = types.ModuleType("sctp")
    m.sctpsocket = VSctpSocket
    m.sctpsocket_tcp = VSctpSocket
    m.MSG_UNORDERED = 0x1
    m.__verif_fake__ = True
    return m


def _os_pipe():
    net = K().net
    p = Pipe()
    net.pipes.append(p)
    r = net.alloc_fd(("pipe-r", p))
    w = net.alloc_fd(("pipe-w", p))
    return r, w


def _os_write(fd, data):
    k = _current
    ent = k.net.fds.get(fd) if k is not None else None
    if not (isinstance(ent, tuple) and ent[0] == "pipe-w"):
        if k is not None and isinstance(ent, tuple):
            raise _oserr(_errno.EBADF)
        if k is not None and fd >= VNet.FIRST_FD and fd not in (1, 2):
            raise _oserr(_errno.EBADF)
        return _os.write(fd, data)
    p = ent[1]
    if p.closed_r:
        raise _oserr(_errno.EPIPE)
    if len(p.buf) + len(data) > Pipe.CAPACITY:
        k.block(lambda: len(p.buf) + len(data) <= Pipe.CAPACITY, None)
    p.buf += data
    k.maybe_yield()
    return len(data)


def _os_read(fd, n):
    k = _current
    ent = k.net.fds.get(fd) if k is not None else None
    if not (isinstance(ent, tuple) and ent[0] == "pipe-r"):
        if k is not None:
            raise _oserr(_errno.EBADF)
        return _os.read(fd, n)
    p = ent[1]
    if not p.buf:
        if p.closed_w:
            return b""
        k.block(lambda: bool(p.buf) or p.closed_w, None)
    out = bytes(p.buf[:n])
    del p.buf[:n]
    return out


def _os_close(fd):
    k = _current
    ent = k.net.fds.get(fd) if k is not None else None
    if isinstance(ent, tuple):
        if ent[0] == "pipe-r":
            ent[1].closed_r = True
        else:
            ent[1].closed_w = True
        k.net.free_fd(fd)
        return
    return _os.close(fd)


class EqualStartsRandom(_rrandom.Random):
    """A random.Random for the code under test whose randint() and getrandbits(64) always give the same value:
    every sequence / session generator created starts at the same point (one of the outcomes real randomness
    can produce).  Everything else (os.urandom for connection ids) stays pseudo-random."""
    def __init__(self, value, seed=0):
        super().__init__(seed)
        self.value = value

    def randint(self, a, b):
        return min(max(self.value, a), b)

    def getrandbits(self, k):
        if k == 64:
            return self.value & ((1 << 64) - 1)
        return super().getrandbits(k)


def _os_urandom(n):
    k = _current
    if k is None:
        return _os.urandom(n)
    return k.rng.getrandbits(8 * n).to_bytes(n, "big") if n else b""


def _fd_readable(net, o):
    if isinstance(o, VSocket):
        return o.readable()
    ent = net.fds.get(o)
    if isinstance(ent, tuple) and ent[0] == "pipe-r":
        return bool(ent[1].buf) or ent[1].closed_w
    if isinstance(ent, VSocket):
        return ent.readable()
    return False


def _fd_writable(net, o):
    if isinstance(o, VSocket):
        return o.writable()
    ent = net.fds.get(o)
    if isinstance(ent, VSocket):
        return ent.writable()
    return isinstance(ent, tuple) and ent[0] == "pipe-w"


def _sim_select(rlist, wlist, xlist, timeout=None):
    k = K()
    net = k.net
    for o in list(rlist) + list(wlist) + list(xlist):
        if isinstance(o, VSocket):
            if o.closed:
                raise ValueError("file descriptor cannot be a negative integer (-1)")
        elif isinstance(o, int):
            if o < 0:
                raise ValueError("file descriptor cannot be a negative integer (-1)")
            if o not in net.fds:
                raise _oserr(_errno.EBADF)
        else:
            raise TypeError("argument must be an int, or have a fileno() method")

    def ready():
        return ([o for o in rlist if _fd_readable(net, o)],
                [o for o in wlist if _fd_writable(net, o)])

    def any_ready():
        r, w = ready()
        return bool(r or w)
    # a thread whose select() keeps returning at once does not starve the others on a real machine (the scheduler
    # preempts it): after a run of immediate returns the simulated thread lets another runnable thread go first
    me = k.cur()
    spins = k.__dict__.setdefault("_spin_selects", {})
    if me is not None and any_ready():
        spins[me] = spins.get(me, 0) + 1
        if spins[me] >= 25:
            spins[me] = 0
            others = [t for t in k._runnable() if t is not me]
            if others:
                k._force_next = others[0]
                k.yield_point()
    elif me is not None:
        spins[me] = 0
    k.block(any_ready, timeout)
    r, w = ready()
    return r, w, []


def _sim_time():
    """Virtual wall clock.  Successive readings differ by 10 microseconds so
    that elapsed times measured by the code under test are never exactly zero
    (a real clock never returns the same value twice in a row); whole seconds
    are unaffected."""
    k = _current
    if k is None:
        return _rtime.time()
    if k.now != k.time_base:
        k.time_base = k.now
        k.time_reads = 0
    k.time_reads += 1
    t = k.now + min(k.time_reads, 50_000) * 1e-5
    if t <= k.last_time:
        t = k.last_time + 1e-5
    k.last_time = t
    return t


def _sim_monotonic():
    k = _current
    return (k.now - k.start_time) if k is not None else _rtime.monotonic()


def _sim_sleep(s):
    k = _current
    if k is None:
        return _rtime.sleep(s)
    k.block(lambda: False, max(s, 1e-9))


class _RandomProxy(types.ModuleType):
    def __getattr__(self, name):
        k = _current
        if k is not None and hasattr(k.rng, name):
            return getattr(k.rng, name)
        return getattr(_rrandom, name)


SHIMS = {}


def build_shims():
    if SHIMS:
        return SHIMS
    SHIMS["threading"] = _make_shim("threading", _rt, {
        "Thread": SimThread, "Lock": SimLock, "RLock": SimRLock, "Event": SimEvent,
        "Condition": SimCondition, "Semaphore": SimSemaphore, "BoundedSemaphore": SimSemaphore,
        "current_thread": _sim_current_thread,
    })
    SHIMS["queue"] = _make_shim("queue", _rqueue, {"Queue": SimQueue, "Empty": _rqueue.Empty,
                                                   "Full": _rqueue.Full})
    SHIMS["time"] = _make_shim("time", _rtime, {"time": _sim_time, "sleep": _sim_sleep,
                                                "monotonic": _sim_monotonic,
                                                "perf_counter": _sim_monotonic})
    SHIMS["select"] = _make_shim("select", _rselect, {"select": _sim_select})
    SHIMS["socket"] = _make_shim("socket", _rsocket, {"socket": VSocket, "error": OSError})
    SHIMS["os"] = _make_shim("os", _os, {"pipe": _os_pipe, "read": _os_read, "write": _os_write,
                                         "close": _os_close, "urandom": _os_urandom})
    SHIMS["random"] = _RandomProxy("random")
    return SHIMS


# ===========================================================================
# loading diameter.node under the shims
# ===========================================================================
_loaded = {}


def load_node(with_sctp: bool = True):
    """(Re)import diameter.node with the shim modules bound; once per process."""
    key = bool(with_sctp)
    if key in _loaded:
        return _loaded[key]
    import importlib
    import diameter  # noqa: F401  (real import of the package first)
    import diameter.message  # noqa: F401
    import diameter.message.commands  # noqa: F401
    import dataclasses, errno, json, logging, math, struct, copy, typing  # noqa: E401,F401
    shims = build_shims()
    for name in [m for m in sys.modules if m == "diameter.node" or m.startswith("diameter.node.")]:
        del sys.modules[name]
    saved = {n: sys.modules.get(n) for n in shims}
    saved_sctp = sys.modules.get("sctp", "absent")
    sys.modules.update(shims)
    if not with_sctp:
        sys.modules["sctp"] = None        # `import sctp` -> ImportError, as without pysctp
    else:
        sys.modules["sctp"] = _make_sctp_module()     # pysctp is not installed here: a fake offering what the node uses
    try:
        node_pkg = importlib.import_module("diameter.node")
        mods = {n: importlib.import_module(f"diameter.node.{n}")
                for n in ("node", "peer", "application", "_helpers")}
    finally:
        for n, m in saved.items():
            if m is None:
                sys.modules.pop(n, None)
            else:
                sys.modules[n] = m
        if saved_sctp == "absent":
            sys.modules.pop("sctp", None)
        else:
            sys.modules["sctp"] = saved_sctp
    diameter.node = node_pkg
    for n, m in mods.items():
        for shim_name, shim in shims.items():
            if shim_name in m.__dict__ and m.__dict__[shim_name] is not shim:
                raise HarnessError(f"diameter.node.{n} did not bind the {shim_name} shim")
    mods["pkg"] = node_pkg
    _loaded[key] = mods
    install_progress_guard(mods)
    return mods


# ===========================================================================
# progress guard (sys.monitoring JUMP events on the library's code objects)
# ===========================================================================
GUARD_TOOL = 4
_guard_installed = False


def _code_objects(module):
    seen = set()
    out = []

    def add(co):
        if id(co) in seen:
            return
        seen.add(id(co))
        out.append(co)
        for c in co.co_consts:
            if isinstance(c, types.CodeType):
                add(c)

    for v in list(vars(module).values()):
        if isinstance(v, types.FunctionType) and v.__module__ == module.__name__:
            add(v.__code__)
        elif isinstance(v, type) and v.__module__ == module.__name__:
            for a in list(vars(v).values()):
                f = a
                if isinstance(a, (classmethod, staticmethod)):
                    f = a.__func__
                elif isinstance(a, property):
                    for g in (a.fget, a.fset, a.fdel):
                        if isinstance(g, types.FunctionType):
                            add(g.__code__)
                    continue
                if isinstance(f, types.FunctionType):
                    add(f.__code__)
    return out


def _guard_jump(code, src, dst):
    k = _current
    if k is None:
        return
    t = k.by_ident.get(_rt.get_ident())
    if t is None:
        return
    t.quantum_events += 1
    if t.quantum_events > k.quantum_budget:
        t.quantum_events = 0
        raise SpinDetected(f"{t.name}: more than {k.quantum_budget} loop iterations without "
                           f"reaching a blocking point (in {code.co_name})")


def install_progress_guard(mods):
    global _guard_installed
    if _guard_installed:
        return
    mon = sys.monitoring
    try:
        mon.use_tool_id(GUARD_TOOL, "verif-progress-guard")
    except ValueError:
        pass
    mon.register_callback(GUARD_TOOL, mon.events.JUMP, _guard_jump)
    import diameter.message._base as mb
    import diameter.message.avp.avp as ma
    import diameter.message.packer as mp
    targets = [mods[n] for n in ("node", "peer", "application", "_helpers")] + [mb, ma, mp]
    for m in targets:
        for co in _code_objects(m):
            mon.set_local_events(GUARD_TOOL, co, mon.events.JUMP)
    _guard_installed = True
