"""Hypothesis driving, sharding over processes, collect-then-shrink."""
from __future__ import annotations

import multiprocessing as mp
import os
import sys
import traceback

import hypothesis
from hypothesis import HealthCheck, Phase, given, settings

from .common import HarnessError, derive_seed, ncores

SUPPRESS = [HealthCheck.too_slow, HealthCheck.data_too_large,
            HealthCheck.large_base_example]


def guarded(body, rec, pid):
    """An exception escaping from *library* code while the oracle exercises it
    is a finding about the library (recorded, generation continues); one
    raised by the machinery itself stays a harness error."""
    from .common import SRC
    src = os.path.abspath(SRC) + os.sep

    def g(case):
        try:
            body(case)
        except Exception as e:
            tb = traceback.extract_tb(e.__traceback__)
            inner = tb[-1]
            if os.path.abspath(inner.filename).startswith(src):
                where = f"{os.path.basename(inner.filename)}:{inner.name}"
                rec.violation(f"{pid}/library-exception/{type(e).__name__}@{where}", case,
                              f"{e!r} raised by the library inside the oracle's call sequence")
            else:
                raise
    return g


def run_given(strategy, body, n_examples: int, seed: int, phases=None, rec=None, pid=None):
    """Run `body(case)` on n generated cases.  `body` records violations
    itself and must not raise for property failures (collect, don't stop)."""
    if n_examples <= 0:
        return
    if rec is not None:
        body = guarded(body, rec, pid or rec.pid)

    @hypothesis.seed(seed)
    @settings(max_examples=n_examples, database=None, deadline=None,
              derandomize=False, suppress_health_check=SUPPRESS,
              phases=phases or [Phase.generate], report_multiple_bugs=False,
              print_blob=False)
    @given(strategy)
    def _t(case):
        body(case)

    try:
        _t()
    except hypothesis.errors.FailedHealthCheck as e:
        raise HarnessError(f"hypothesis health check: {e}") from None


def minimise(strategy, predicate, seed: int, budget: int = 2000):
    """Smallest generated case satisfying `predicate` (Hypothesis' shrinker via
    find); None when the budget does not reproduce it."""
    import random
    try:
        return hypothesis.find(
            strategy, predicate, random=random.Random(seed),
            settings=settings(max_examples=budget, database=None, deadline=None,
                              suppress_health_check=list(HealthCheck)))
    except hypothesis.errors.NoSuchExample:
        return None
    except Exception:
        return None


def _worker(args):
    fn, shard, nshards, extra = args
    try:
        sys.setrecursionlimit(10000)
        return ("ok", fn(shard, nshards, *extra))
    except HarnessError as e:
        return ("harness", f"shard {shard}: {e}")
    except BaseException:
        return ("harness", f"shard {shard}: {traceback.format_exc()}")


def pool_run(fn, extra=(), nshards: int | None = None):
    """Run fn(shard, nshards, *extra) in forked workers; returns the list of
    results.  fn must be a module-level function."""
    n = nshards or ncores()
    if n == 1 or os.environ.get("VERIF_INLINE") == "1":
        out = [_worker((fn, i, n, extra)) for i in range(n)]
    else:
        ctx = mp.get_context("fork")
        with ctx.Pool(min(n, ncores())) as pool:
            out = pool.map(_worker, [(fn, i, n, extra) for i in range(n)], chunksize=1)
    res = []
    for status, val in out:
        if status != "ok":
            raise HarnessError(val)
        res.append(val)
    return res
