"""Process bootstrap shared by every check.

* pins the environment (PYTHONHASHSEED=0, TZ=UTC, -B) by re-exec'ing once;
* puts the source tree under test first on sys.path and asserts that
  `diameter` is really imported from there (VERIF_SRC, default /repo/src --
  the registered commands never set it; mutation runs point it at a scratch
  copy);
* derives per-shard seeds from VERIF_SEED.
"""
from __future__ import annotations

import hashlib
import os
import sys
import time

VERIF_DIR = os.path.dirname(os.path.dirname(os.path.abspath(__file__)))
SRC = os.environ.get("VERIF_SRC", "/repo/src")
HOOK_GUARD = "MENSONEN_DIAMETER_VERIF"


def ensure_env():
    """Re-exec once with a pinned environment so a run is a pure function of
    (tree, VERIF_SEED, tier)."""
    want = {"PYTHONHASHSEED": "0", "TZ": "UTC", "PYTHONDONTWRITEBYTECODE": "1",
            HOOK_GUARD: "1"}
    if any(os.environ.get(k) != v for k, v in want.items()):
        env = dict(os.environ)
        env.update(want)
        env.setdefault("VERIF_REEXEC", "0")
        if env["VERIF_REEXEC"] == "1":
            raise SystemExit("harness: environment pinning failed")
        env["VERIF_REEXEC"] = "1"
        os.execve(sys.executable, [sys.executable, "-B"] + sys.argv, env)
    time.tzset()


def import_repo():
    """Import `diameter` from the tree under test and assert its origin."""
    src = os.path.abspath(SRC)
    if src in sys.path:
        sys.path.remove(src)
    sys.path.insert(0, src)
    import logging
    logging.disable(logging.CRITICAL)      # arguments are still evaluated, nothing is emitted
    import diameter  # noqa
    origin = os.path.abspath(diameter.__file__)
    if not origin.startswith(src + os.sep):
        raise HarnessError(f"diameter imported from {origin}, expected under {src}")
    return diameter


def seed_base() -> int:
    try:
        return int(os.environ.get("VERIF_SEED", "1"))
    except ValueError:
        return 1


def derive_seed(*parts) -> int:
    h = hashlib.sha256(repr((seed_base(),) + parts).encode()).digest()
    return int.from_bytes(h[:8], "big")


def fp(*parts) -> int:
    """64-bit fingerprint of a case, for distinct counting."""
    h = hashlib.blake2b(repr(parts).encode(), digest_size=8).digest()
    return int.from_bytes(h, "big")


def ncores() -> int:
    try:
        n = int(os.environ.get("VERIF_JOBS", "0"))
    except ValueError:
        n = 0
    return n or min(16, os.cpu_count() or 1)


class HarnessError(Exception):
    """A problem of the machinery itself: exit 2, never a VIOLATION."""
