"""E2 -- Hypothesis strategies.  Everything generated here is a JSON-able
*spec*; `materialize()` turns a spec into (python value for the library,
reference payload bytes from E1).  The strategies never call the library.

value spec  : {"t": typename, "j": json value}
avp spec    : {"code", "vendor", "m": None|bool, "p": None|bool, "v": value spec,
               "rsv": reserved flag bits (wire-side only)}
"""
from __future__ import annotations

import datetime
import math
import struct

from hypothesis import strategies as st

from . import refcodec as R

I32 = (-(1 << 31), (1 << 31) - 1)
I64 = (-(1 << 63), (1 << 63) - 1)
U32 = (0, (1 << 32) - 1)
U64 = (0, (1 << 64) - 1)
INT_RANGES = {"Integer32": I32, "Integer64": I64, "Unsigned32": U32,
              "Unsigned64": U64, "Enumerated": I32}
INT_SIZES = {"Integer32": 4, "Integer64": 8, "Unsigned32": 4, "Unsigned64": 8,
             "Enumerated": 4}
SCALAR_TYPES = ["OctetString", "UTF8String", "Integer32", "Integer64",
                "Unsigned32", "Unsigned64", "Float32", "Float64", "Time",
                "Address"]


def _bounded_ints(lo, hi):
    edge = sorted({lo, lo + 1, hi, hi - 1, 0, 1, -1 if lo < 0 else 2,
                   255, 256, 65535, 65536, (1 << 31) - 1, 1 << 31 if hi > 1 << 31 else 7})
    edge = [e for e in edge if lo <= e <= hi]
    return st.one_of(st.sampled_from(edge), st.integers(lo, hi),
                     st.integers(max(lo, -1000), min(hi, 1000)))


# ---- float bit patterns ----------------------------------------------------
def f32_from_bits(bits: int) -> float:
    s, e, m = bits >> 31, (bits >> 23) & 0xff, bits & 0x7fffff
    if e == 255:
        if m:
            return struct.unpack("!f", bits.to_bytes(4, "big"))[0]
        v = math.inf
    elif e == 0:
        v = math.ldexp(m, -149)
    else:
        v = math.ldexp(m | (1 << 23), e - 150)
    return -v if s else v


def f64_from_bits(bits: int) -> float:
    s, e, m = bits >> 63, (bits >> 52) & 0x7ff, bits & ((1 << 52) - 1)
    if e == 0x7ff:
        if m:
            return struct.unpack("!d", bits.to_bytes(8, "big"))[0]
        v = math.inf
    elif e == 0:
        v = math.ldexp(m, -1074)
    else:
        v = math.ldexp(m | (1 << 52), e - 1075)
    return -v if s else v


def _f32_nan_ok(bits: int) -> bool:
    # platform probe: a binary32 NaN pattern is in the *value* domain only if
    # the C double<->float conversion of this platform preserves it (signalling
    # NaNs are quietened by the FPU; that is not the library's doing)
    b = bits.to_bytes(4, "big")
    return struct.pack("!f", struct.unpack("!f", b)[0]) == b


F32_EDGE = [0x00000000, 0x80000000, 0x00000001, 0x807fffff, 0x00800000,
            0x7f7fffff, 0xff7fffff, 0x7f800000, 0xff800000, 0x3f800000,
            0x7fc00000, 0xffc00000, 0x7fc00001, 0x7fffffff, 0x33800000]
F64_EDGE = [0, 1 << 63, 1, (1 << 52) - 1, 1 << 52, 0x7fefffffffffffff,
            0xffefffffffffffff, 0x7ff0000000000000, 0xfff0000000000000,
            0x3ff0000000000000, 0x7ff8000000000000, 0xfff8000000000000,
            0x7ff0000000000001, 0x7fffffffffffffff, 0x47efffffe0000000,
            0x47efffffefffffff]


def f32_bits():
    return st.one_of(st.sampled_from(F32_EDGE), st.integers(0, (1 << 32) - 1)).filter(
        lambda b: not ((b >> 23) & 0xff == 255 and b & 0x7fffff) or _f32_nan_ok(b))


def f64_bits():
    return st.one_of(st.sampled_from(F64_EDGE), st.integers(0, (1 << 64) - 1))


# ---- octets / text ---------------------------------------------------------
def octet_lengths(max_len=4096):
    edges = [n for n in (0, 1, 2, 3, 4, 5, 7, 8, 255, 256, 1021, 1022, 1023, 1024,
                         4093, 4094, 4095, 4096) if n <= max_len]
    return st.one_of(st.integers(0, min(24, max_len)), st.sampled_from(edges),
                     st.integers(0, max_len))


@st.composite
def octets(draw, max_len=4096):
    n = draw(octet_lengths(max_len))
    if n <= 64:
        return draw(st.binary(min_size=n, max_size=n))
    # long values: a drawn 16-byte tile repeated (keeps generation cheap)
    tile = draw(st.binary(min_size=16, max_size=16))
    return (tile * (n // 16 + 1))[:n]


def texts(max_len=64):
    alpha = st.one_of(
        st.characters(min_codepoint=0x20, max_codepoint=0x7e),
        st.characters(blacklist_categories=("Cs",)),
        st.sampled_from(["\u0000", "é", "́", "€", "\U0001f600",
                         "\U0010ffff", "‍", "﻿", "\u007f", "\u0080",
                         "߿", "ࠀ", "￿", "\U00010000"]))
    plain = st.text(alphabet=alpha, max_size=max_len)
    # characters that codecs treat specially at the edges of a string (BOM, NUL, non-characters, combining marks)
    edge = st.sampled_from(["\ufeff", "\ufffe", "\u0000", "\uffff", "\u0301", "\u200d", "\U0010ffff", " ", "\n", "\ufeff\ufeff"])
    return st.one_of(plain, plain, st.tuples(edge, plain).map(lambda t: (t[0] + t[1])[:max_len]),
                     st.tuples(plain, edge).map(lambda t: (t[0][:max_len - len(t[1])] + t[1])), edge)


# ---- addresses ---------------------------------------------------------------
def _v6_forms(n: int):
    import ipaddress
    ip = ipaddress.IPv6Address(n)
    forms = [ip.compressed, ip.exploded, ip.compressed.upper()]
    hi, lo = n >> 32, n & 0xffffffff
    if hi in (0, 0xffff):
        forms.append(("::" if hi == 0 else "::ffff:") +
                     ".".join(str((lo >> s) & 255) for s in (24, 16, 8, 0)))
    return forms


@st.composite
def addresses(draw):
    kind = draw(st.sampled_from(["v4", "v4", "v6", "v6", "e164"]))
    if kind == "v4":
        n = draw(st.one_of(st.sampled_from([0, 1, 0x7f000001, 0xffffffff, 0x0a000001,
                                            0xc0a80001, 0xe0000001]),
                           st.integers(0, (1 << 32) - 1)))
        return ".".join(str((n >> s) & 255) for s in (24, 16, 8, 0))
    if kind == "v6":
        n = draw(st.one_of(
            st.sampled_from([0, 1, (1 << 128) - 1, 0xfe80 << 112 | 1, 0xffff << 32 | 0x01020304,
                             0x20010db8 << 96, 0x0001000000000000_0000000000000001]),
            st.integers(0, (1 << 128) - 1),
            st.integers(0, (1 << 48) - 1)))
        forms = _v6_forms(n)
        return draw(st.sampled_from(forms))
    return draw(st.text(alphabet="0123456789", min_size=1, max_size=20))


# ---- time ------------------------------------------------------------------------
TIME_EDGES = [R.TIME_MIN_UNIX, R.TIME_MIN_UNIX + 1, R.TIME_MAX_UNIX, R.TIME_MAX_UNIX - 1,
              R.ERA - R.NTP_UNIX_DELTA - 1, R.ERA - R.NTP_UNIX_DELTA,
              R.ERA - R.NTP_UNIX_DELTA + 1, R.ERA - R.NTP_UNIX_DELTA - 3600,
              R.ERA - R.NTP_UNIX_DELTA - 3601, R.ERA - R.NTP_UNIX_DELTA + 3600,
              0, -1, 1, 951782400, 1709164800, 2147483647, 2147483648,
              4102444800, 4107542400]


def times():
    return st.one_of(st.sampled_from(TIME_EDGES),
                     st.integers(R.TIME_MIN_UNIX, R.TIME_MAX_UNIX),
                     st.integers(R.ERA - R.NTP_UNIX_DELTA - 7200, R.ERA - R.NTP_UNIX_DELTA + 7200))


# ---- value specs -------------------------------------------------------------------
def value_spec(tname: str, max_octets=4096):
    if tname in INT_RANGES:
        lo, hi = INT_RANGES[tname]
        return _bounded_ints(lo, hi).map(lambda v: {"t": tname, "j": v})
    if tname == "Float32":
        return f32_bits().map(lambda b: {"t": tname, "j": b})
    if tname == "Float64":
        return f64_bits().map(lambda b: {"t": tname, "j": b})
    if tname in ("OctetString", "untyped"):
        return octets(max_octets).map(lambda b: {"t": tname, "j": b.hex()})
    if tname == "UTF8String":
        return texts().map(lambda s: {"t": tname, "j": s})
    if tname == "Address":
        return addresses().map(lambda s: {"t": tname, "j": s})
    if tname == "Time":
        return times().map(lambda u: {"t": tname, "j": u})
    raise ValueError(tname)


def materialize(vs, build_avp=None):
    """value spec -> (python value for the library, reference payload)."""
    t, j = vs["t"], vs["j"]
    if t in INT_RANGES:
        return j, R.enc_int(j, INT_SIZES[t], t.startswith("I") or t == "Enumerated")
    if t == "Float32":
        return f32_from_bits(j), R.enc_f32_bits(j)
    if t == "Float64":
        return f64_from_bits(j), R.enc_f64_bits(j)
    if t in ("OctetString", "untyped"):
        b = bytes.fromhex(j)
        return b, b
    if t == "UTF8String":
        return j, j.encode("utf-8")
    if t == "Address":
        return j, R.enc_address(j)
    if t == "Time":
        y, mo, d, h, mi, s = R.fields_from_unix(j)
        return datetime.datetime(y, mo, d, h, mi, s), R.enc_time_unix(j)
    if t == "Grouped":
        kids, payload = [], b""
        for a in j:
            lib, ref = build_avp(a)
            kids.append(lib)
            payload += ref
        return kids, payload
    raise ValueError(t)


# ---- dictionary driven AVP specs -----------------------------------------------------
class Dict:
    """The AVP dictionary of the tree under test, indexed for generation."""
    def __init__(self):
        self.entries = R.load_dictionary()
        self.by_key = {(c, v): (t, n, m, cls) for c, v, t, n, m, cls in self.entries}
        self.scalar = [e for e in self.entries if e[2] != "Grouped"]
        self.grouped = [e for e in self.entries if e[2] == "Grouped"]
        self.by_type = {}
        for e in self.entries:
            self.by_type.setdefault(e[2], []).append(e)
        self.vendors = sorted({e[1] for e in self.entries if e[1]})
        self.scalar_types = sorted(t for t in self.by_type if t != "Grouped")

    def default_m(self, code, vendor):
        e = self.by_key.get((code, vendor))
        return bool(e[2]) if e else False

    def tname(self, code, vendor):
        e = self.by_key.get((code, vendor))
        return e[0] if e else "untyped"


MP = st.sampled_from([None, True, False])


@st.composite
def avp_spec(draw, D: Dict, depth=0, max_depth=6, max_octets=256, entry=None,
             small=False):
    """One AVP drawn from the dictionary (recursively for Grouped)."""
    if entry is None:
        if depth + 1 < max_depth and draw(st.integers(0, 9)) < (3 if depth else 4):
            entry = draw(st.sampled_from(D.grouped))
        elif draw(st.booleans()):
            entry = draw(st.sampled_from(D.scalar))
        else:
            tn = draw(st.sampled_from(D.scalar_types))
            entry = draw(st.sampled_from(D.by_type[tn]))
    code, vendor, tname = entry[0], entry[1], entry[2]
    m, p = draw(MP), draw(MP)
    if tname == "Grouped":
        if depth + 1 >= max_depth:
            kids = []
        else:
            n = draw(st.integers(0, 2 if small or depth > 1 else 4))
            kids = [draw(avp_spec(D, depth + 1, max_depth, max_octets, small=small))
                    for _ in range(n)]
        v = {"t": "Grouped", "j": kids}
    else:
        v = draw(value_spec(tname, max_octets))
    return {"code": code, "vendor": vendor, "m": m, "p": p, "v": v}


def spec_depth(a) -> int:
    if a["v"]["t"] != "Grouped":
        return 1
    return 1 + max([spec_depth(k) for k in a["v"]["j"]] or [0])


def spec_count(a) -> int:
    if a["v"]["t"] != "Grouped":
        return 1
    return 1 + sum(spec_count(k) for k in a["v"]["j"])


def ref_flags(D: Dict, a) -> int:
    m = a["m"] if a["m"] is not None else D.default_m(a["code"], a["vendor"])
    f = (R.FLAG_M if m else 0) | (R.FLAG_P if a["p"] else 0)
    return f | (R.FLAG_V if a["vendor"] else 0)


def ref_encode(D: Dict, a) -> bytes:
    """Reference encoding of an avp spec (no library involved)."""
    if a["v"]["t"] == "Grouped":
        data = b"".join(ref_encode(D, k) for k in a["v"]["j"])
    else:
        data = materialize(a["v"])[1]
    return R.enc_avp(a["code"], a["vendor"], ref_flags(D, a) | a.get("rsv", 0), data)
