"""E5 -- schedule explorer: bounded-exhaustive and random exploration of thread
interleavings of the real code, at source-line / call granularity.

Choice points of one execution (numbered in order of occurrence):
  * preemption opportunity: a simulated thread is about to execute a *relevant*
    line, or to call a function directly from such a line, while another
    thread is runnable.  choice 0 = carry on, c>0 = switch to the c-th other
    runnable thread;
  * forced switch: the running thread blocks or ends and >= 2 threads are
    runnable.  choice 0 = the first in creation order, c>0 = the (c+1)-th.
A schedule is {choice point index: non-zero choice}; its *cost* is the number
of entries (deviations from the default schedule).  Exploration is stateless:
every schedule is replayed from the start in a fresh kernel.
"""
from __future__ import annotations

import re
import sys
import threading as _rt
import types

from . import simkernel as sk

LINE_TOOL = 5
_installed = False
_relevant: dict = {}         # code object -> set of line numbers | None (= all lines)


class Explorer:
    """Holds the decisions for one run and records its choice-point trace."""

    def __init__(self, decisions: dict[int, int] | None = None, rng=None, p_switch=0.0,
                 max_random_switches=0):
        self.decisions = dict(decisions or {})
        self.trace: list[int] = []       # number of alternatives (besides the default) per point
        self.kinds: list[str] = []
        self.taken: dict[int, int] = {}
        self.rng = rng
        self.p_switch = p_switch
        self.random_left = max_random_switches
        self.armed = False

    def choose(self, kind: str, n_alt: int) -> int:
        idx = len(self.trace)
        self.trace.append(n_alt)
        self.kinds.append(kind)
        c = self.decisions.get(idx, 0)
        if c == 0 and self.rng is not None and self.random_left > 0 and self.rng.random() < self.p_switch:
            c = self.rng.randint(1, n_alt)
            self.random_left -= 1
        if c > n_alt:
            c = 0
        if c:
            self.taken[idx] = c
        return c


def attach(k: sk.Kernel, ex: Explorer, io_points=False):
    """Route the kernel's scheduling decisions through the explorer.  With io_points the virtual
    send() becomes a preemption point too (the system call runs without the GIL)."""
    k.explorer = ex
    k.io_hook = _at_point if io_points else None

    def chooser(cands):
        if not ex.armed or len(cands) < 2:
            return cands[0]
        forced = getattr(k, "_force_next", None)
        if forced is not None:
            k._force_next = None
            if forced in cands:
                return forced
        order = sorted(cands, key=lambda t: k.creation_index[t])
        c = ex.choose("forced", len(order) - 1)
        return order[c]
    k.chooser = chooser
    k.creation_index = _CreationIndex(k)


class _CreationIndex:
    def __init__(self, k):
        self.k = k
        self.idx = {}

    def __getitem__(self, t):
        if t not in self.idx:
            self.idx[t] = len(self.idx)
        return self.idx[t]


def _at_point(kind):
    k = sk._current
    if k is None:
        return
    ex = getattr(k, "explorer", None)
    if ex is None or not ex.armed or k.dead:
        return
    me = k.by_ident.get(_rt.get_ident())
    if me is None or me.state != sk.RUNNABLE:
        return
    others = [t for t in k._runnable() if t is not me]
    if not others:
        return
    for t in k.threads:                  # fix creation order for determinism
        k.creation_index[t]
    others.sort(key=lambda t: k.creation_index[t])
    c = ex.choose(kind, len(others))
    if c:
        k._force_next = others[c - 1]
        me.state = sk.RUNNABLE
        k._dispatch_from(me)


def _on_line(code, line):
    lines = _relevant.get(code, False)
    if lines is False:
        return
    if lines is not None and line not in lines:
        return
    _at_point("line")


def _on_call(code, offset, callable_, arg0):
    if code not in _relevant:
        return
    lines = _relevant[code]
    if lines is not None:
        # map the instruction offset to its line
        ln = _line_of(code, offset)
        if ln not in lines:
            return
    if not isinstance(callable_, (types.FunctionType, types.MethodType)):
        return                       # C functions cannot be preempted inside
    _at_point("call")


_line_cache: dict = {}


def _line_of(code, offset):
    tab = _line_cache.get(code)
    if tab is None:
        tab = list(code.co_lines())
        _line_cache[code] = tab
    for s, e, ln in tab:
        if s <= offset < e:
            return ln
    return None


def install(relevant: dict):
    """relevant: {function object: None (all lines) | regex applied to each source line}"""
    global _installed
    mon = sys.monitoring
    if not _installed:
        try:
            mon.use_tool_id(LINE_TOOL, "verif-sched")
        except ValueError:
            pass
        mon.register_callback(LINE_TOOL, mon.events.LINE, _on_line)
        mon.register_callback(LINE_TOOL, mon.events.CALL, _on_call)
        _installed = True
    import inspect
    for fn, rx in relevant.items():
        f = fn
        if isinstance(f, property):
            f = f.fget
        f = getattr(f, "__func__", f)
        code = f.__code__
        if rx is None:
            _relevant[code] = None
        else:
            src, first = inspect.getsourcelines(f)
            pat = re.compile(rx)
            _relevant[code] = {first + i for i, text in enumerate(src) if pat.search(text)}
        mon.set_local_events(LINE_TOOL, code, mon.events.LINE | mon.events.CALL)
    return {getattr(k, "co_name", str(k)): (None if v is None else len(v)) for k, v in _relevant.items()}


def clear():
    """Forget every preemption point (the next install() starts from nothing)."""
    _relevant.clear()


def enumerate_schedules(run_one, bound: int, shard=0, nshards=1, max_runs=None):
    """Stateless DFS over all schedules with cost <= bound.
    run_one(decisions) -> trace (list of alternative counts per choice point).
    Yields (decisions, trace) for every schedule executed on behalf of this
    shard.  The root is run by every shard (to learn its trace) but yielded
    by shard 0 only; first-level children are dealt round-robin to shards."""
    count = 0
    root_trace = run_one({})
    if shard == 0:
        count += 1
        yield {}, root_trace
    if bound < 1:
        return
    stack = []
    n = 0
    for idx in range(len(root_trace)):
        for c in range(1, root_trace[idx] + 1):
            if n % nshards == shard:
                stack.append(({idx: c}, idx))
            n += 1
    stack.reverse()
    while stack:
        dec, last = stack.pop()
        trace = run_one(dec)
        count += 1
        yield dec, trace
        if max_runs is not None and count >= max_runs:
            return
        if len(dec) >= bound:
            continue
        for idx in range(len(trace) - 1, last, -1):
            for c in range(1, trace[idx] + 1):
                child = dict(dec)
                child[idx] = c
                stack.append((child, idx))
