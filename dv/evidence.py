"""Counters, classification, samples, violations -> evidence/<id>.json and the
VIOLATION / KNOWN-FINDING lines of the interface."""
from __future__ import annotations

import json
import os
import re
import time
from collections import Counter

from . import findings
from .common import VERIF_DIR, seed_base

MAX_SAMPLES = 12
MAX_FPS = 4_000_000


def jsonable(x, depth=0):
    """Best-effort conversion of a case to something json.dump accepts."""
    if depth > 12:
        return repr(x)
    if x is None or isinstance(x, (bool, int, str)):
        return x
    if isinstance(x, float):
        if x != x or x in (float("inf"), float("-inf")):
            return repr(x)
        return x
    if isinstance(x, (bytes, bytearray)):
        return {"hex": bytes(x).hex()}
    if isinstance(x, dict):
        return {str(k): jsonable(v, depth + 1) for k, v in x.items()}
    if isinstance(x, (list, tuple, set, frozenset)):
        return [jsonable(v, depth + 1) for v in x]
    return repr(x)


class Recorder:
    def __init__(self, pid: str):
        self.pid = pid
        self.evaluations = 0
        self.fps: set[int] = set()
        self.classes: Counter = Counter()
        self.samples: list = []
        self.violations: dict[str, dict] = {}
        self.excluded: Counter = Counter()
        self.extra: dict = {}
        self._next_sample_at = 1

    # -- recording -------------------------------------------------------
    def case(self, fingerprint: int | None = None, classes=(), sample=None,
             n: int = 1):
        """Count n evaluated cases; `fingerprint` is given iff the case is
        non-trivial by the check's stated rule."""
        self.evaluations += n
        if fingerprint is not None and len(self.fps) < MAX_FPS:
            self.fps.add(fingerprint)
        for c in classes:
            self.classes[c] += 1
        if sample is not None and self.evaluations >= self._next_sample_at \
                and len(self.samples) < MAX_SAMPLES:
            self.samples.append(jsonable(sample() if callable(sample) else sample))
            self._next_sample_at = max(self._next_sample_at * 7, self.evaluations + 1)

    def cls(self, *names):
        for c in names:
            self.classes[c] += 1

    def violation(self, sig: str, case, detail: str, size: int | None = None):
        case_j = jsonable(case)
        if size is None:
            size = len(json.dumps(case_j))
        cur = self.violations.get(sig)
        if cur is None:
            self.violations[sig] = {"size": size, "case": case_j,
                                    "detail": str(detail)[:2000], "count": 1}
        else:
            cur["count"] += 1
            if size < cur["size"]:
                cur.update(size=size, case=case_j, detail=str(detail)[:2000])

    # -- merging across shards ---------------------------------------------
    def _take_transport_counts(self):
        import sys
        wm = sys.modules.get("dv.world")
        if wm is not None:
            for t, n in list(wm.TRANSPORT_COUNTS.items()):
                self.extra[f"worlds_{t}"] = self.extra.get(f"worlds_{t}", 0) + n
            wm.TRANSPORT_COUNTS.clear()

    def dump(self) -> dict:
        self._take_transport_counts()
        return {"evaluations": self.evaluations, "fps": self.fps,
                "classes": dict(self.classes), "samples": self.samples,
                "violations": self.violations, "excluded": dict(self.excluded),
                "extra": self.extra}

    def merge(self, d: dict):
        self.evaluations += d["evaluations"]
        if len(self.fps) < MAX_FPS:
            self.fps |= d["fps"]
        self.classes.update(d["classes"])
        self.excluded.update(d["excluded"])
        for s in d["samples"]:
            if len(self.samples) < MAX_SAMPLES:
                self.samples.append(s)
        for sig, v in d["violations"].items():
            cur = self.violations.get(sig)
            if cur is None:
                self.violations[sig] = dict(v)
            else:
                cur["count"] += v["count"]
                if v["size"] < cur["size"]:
                    cur.update(size=v["size"], case=v["case"], detail=v["detail"])
        for k, v in d["extra"].items():
            if isinstance(v, (int, float)) and isinstance(self.extra.get(k), (int, float)):
                self.extra[k] += v
            elif isinstance(v, list) and isinstance(self.extra.get(k), list):
                self.extra[k] = (self.extra[k] + v)[:50]
            else:
                self.extra.setdefault(k, v)


def slug(s: str) -> str:
    return re.sub(r"[^A-Za-z0-9_.-]+", "_", s)[:120]


def finish(rec: Recorder, *, tier: str, level: str, rule: str,
           assumptions: list[str], t0: float, exhaustive: bool = False,
           required_classes: dict | None = None, extra_cov: dict | None = None,
           known_lines: list[str] | None = None) -> int:
    """Write evidence, print VIOLATION lines, return the exit code."""
    pid = rec.pid
    rec._take_transport_counts()
    known = findings.known_for(pid)
    out_violations = []
    for sig, v in sorted(rec.violations.items()):
        k = findings.match(known, sig)
        if k is not None:
            print(f"KNOWN-FINDING: property={pid} sig={sig} {k['text']} "
                  f"(seen {v['count']}x in generated cases)")
            continue
        rdir = os.path.join(VERIF_DIR, "replays", pid)
        os.makedirs(rdir, exist_ok=True)
        path = os.path.join(rdir, slug(sig) + ".json")
        with open(path, "w") as f:
            json.dump({"property": pid, "signature": sig, "detail": v["detail"],
                       "count": v["count"], "case": v["case"]}, f, indent=1)
        out_violations.append((sig, path, v))
    for line in known_lines or []:
        print(line)

    missing = []
    if required_classes:
        for c, minimum in required_classes.items():
            if rec.classes.get(c, 0) < minimum:
                missing.append(f"{c}<{minimum} (got {rec.classes.get(c, 0)})")

    cov = {
        "evaluations": int(rec.evaluations),
        "distinct_nontrivial": int(len(rec.fps)),
        "rule": rule,
        "samples": rec.samples[:MAX_SAMPLES] or ["(no sample recorded)"],
        "exhaustive": bool(exhaustive),
        "classes": dict(sorted(rec.classes.items())),
        "excluded_known": dict(rec.excluded),
    }
    cov.update(rec.extra)
    if extra_cov:
        cov.update(extra_cov)
    if missing:
        cov["class_targets_missed"] = missing
    ev = {
        "property_id": pid, "tier": tier, "seed": seed_base(), "level": level,
        "coverage": cov, "assumptions": assumptions,
        "wall_s": round(time.time() - t0, 2),
        "violations": len(out_violations),
        "violation_signatures": [s for s, _, _ in out_violations],
    }
    edir = os.path.join(VERIF_DIR, "evidence")
    os.makedirs(edir, exist_ok=True)
    with open(os.path.join(edir, f"{pid}.json"), "w") as f:
        json.dump(ev, f, indent=1, sort_keys=False)

    print(f"[{pid}] tier={tier} seed={seed_base()} evaluations={rec.evaluations} "
          f"distinct_nontrivial={len(rec.fps)} violations={len(out_violations)} "
          f"wall={ev['wall_s']}s")
    for sig, path, v in out_violations:
        print(f"  signature={sig} count={v['count']} detail={v['detail'][:300]}")
        print(f"VIOLATION property={pid} replay={path}")
    if out_violations:
        return 1
    if missing:
        print(f"[{pid}] harness: generator class targets missed: {missing}")
        return 2
    return 0
