"""Concurrent use of the codec (E5 applied to diameter.message).

The node decodes and encodes on one reader and one writer thread per connection plus the application's own threads,
so the codec is used from several threads at once.  `concurrent_vs_sequential` runs a few codec tasks on simulated
threads under a generated schedule (preemption at source-line granularity inside the codec's own functions) and
again one after the other; the oracle of the calling check compares the two sets of outcomes.

Module-level state of the codec (lookup tables, caches, class attributes created lazily) is put back to what it was
right after import before each of the two runs, so that "the first use in this process" is explored every time and
not only once per process.
"""
from __future__ import annotations

import copy
import inspect
import random as _random
import sys
import types

from dv import sched, simkernel as sk

CODEC_MODULES = ["diameter.message._base", "diameter.message.packer", "diameter.message.avp.avp",
                 "diameter.message.avp.generator", "diameter.message.avp.grouped",
                 "diameter.message.commands._attributes"]
STATE_PREFIX = "diameter.message"


class ModuleState:
    """Snapshot of the mutable module-level and class-level state of the codec, taken before its first use."""

    def __init__(self, prefix=STATE_PREFIX):
        self.containers = []       # (owner, attribute name, object, shallow copy)
        self.class_attrs = []      # (class, names present at snapshot time)
        self.caches = []
        seen = set()
        for name, mod in sorted(sys.modules.items()):
            if mod is None or not (name == prefix or name.startswith(prefix + ".")):
                continue
            for attr, val in list(vars(mod).items()):
                if attr.startswith("__"):
                    continue
                if isinstance(val, (dict, list, set)) and id(val) not in seen:
                    seen.add(id(val))
                    self.containers.append((mod, attr, val, copy.copy(val)))
                elif hasattr(val, "cache_clear") and callable(val.cache_clear):
                    self.caches.append(val)
                elif isinstance(val, type) and (val.__module__ or "").startswith(prefix) and id(val) not in seen:
                    seen.add(id(val))
                    self.class_attrs.append((val, set(vars(val))))
                    for cattr, cval in list(vars(val).items()):
                        if cattr.startswith("__"):
                            continue
                        if isinstance(cval, (dict, list, set)) and id(cval) not in seen:
                            seen.add(id(cval))
                            self.containers.append((val, cattr, cval, copy.copy(cval)))
                        elif hasattr(cval, "cache_clear") and callable(getattr(cval, "cache_clear", None)):
                            self.caches.append(cval)

    def restore(self):
        for owner, attr, obj, saved in self.containers:
            try:
                if getattr(owner, attr, None) is not obj:
                    setattr(owner, attr, obj)
            except (AttributeError, TypeError):
                pass
            if len(obj) != len(saved) or obj != saved:
                if isinstance(obj, list):
                    obj[:] = saved
                else:
                    obj.clear()
                    obj.update(saved)
        for cls, names in self.class_attrs:
            for extra in set(vars(cls)) - names:
                if extra.startswith("__") and extra.endswith("__"):
                    continue
                try:
                    delattr(cls, extra)
                except (AttributeError, TypeError):
                    pass
        for c in self.caches:
            try:
                c.cache_clear()
            except Exception:
                pass


def codec_functions(modules=CODEC_MODULES):
    """Every python function defined in the codec modules (module level and in their classes)."""
    import importlib
    out = {}
    for mn in modules:
        mod = importlib.import_module(mn)
        for _, val in list(vars(mod).items()):
            cands = []
            if isinstance(val, types.FunctionType):
                cands.append(val)
            elif isinstance(val, type) and val.__module__ == mn:
                for _, cval in list(vars(val).items()):
                    f = cval
                    if isinstance(f, (classmethod, staticmethod)):
                        f = f.__func__
                    if isinstance(f, property):
                        for g in (f.fget, f.fset):
                            if isinstance(g, types.FunctionType):
                                cands.append(g)
                        continue
                    if isinstance(f, types.FunctionType):
                        cands.append(f)
            for f in cands:
                if f.__module__ == mn:
                    try:
                        inspect.getsourcelines(f)
                    except (OSError, TypeError):
                        continue
                    out[f] = None
    return out


def install_points(modules=CODEC_MODULES):
    sched.clear()
    return sched.install(codec_functions(modules))


def outcome(fn):
    """Run one task; its outcome is ('ok', value) or ('exc', exception type name)."""
    try:
        return ("ok", fn())
    except Exception as e:           # the tasks' own contract: decoding raises on what it cannot decode
        return ("exc", type(e).__name__)


def concurrent_vs_sequential(tasks, state: ModuleState, seed: int, p_switch=0.1, max_switches=6):
    """tasks: zero-argument callables.  Returns (concurrent outcomes, sequential outcomes, schedule taken,
    kernel errors).  The schedule is a function of `seed` alone."""
    make = tasks if callable(tasks) else None        # a factory: fresh (shared) objects for each of the two runs
    if make is not None:
        state.restore()
        tasks = make()
    state.restore()
    k = sk.Kernel(seed=1).install()
    ex = sched.Explorer(None, rng=_random.Random(seed), p_switch=p_switch, max_random_switches=max_switches)
    sched.attach(k, ex)
    try:
        boxes = [k.spawn(lambda t=t: outcome(t), name=f"codec{i}") for i, t in enumerate(tasks)]
        ex.armed = True
        k.run()
        ex.armed = False
        errs = [repr(e) for e in k.errors]
        conc = []
        for b in boxes:
            if not b["done"]:
                conc.append(("blocked", None))
            elif b["exc"] is not None:
                conc.append(("exc", type(b["exc"]).__name__))
            else:
                conc.append(b["result"])
    finally:
        k.shutdown()
    state.restore()
    if make is not None:
        tasks = make()
        state.restore()
    seq = [outcome(t) for t in tasks]
    state.restore()
    return conc, seq, dict(ex.taken), errs
