#!/bin/sh
# setup_cmd: idempotent, offline.  Installs hypothesis into /venv when missing and
# atheris (cp312 wheel) into /verif/.deps; both from the local wheelhouse only.
set -e
cd "$(dirname "$0")"
W=/opt/veriftools/wheels
PY=/venv/bin/python
if ! $PY -c "import hypothesis" 2>/dev/null; then
  /venv/bin/pip install --no-index --find-links $W hypothesis >/dev/null
fi
mkdir -p .deps evidence replays
if ! PYTHONPATH=.deps $PY -c "import atheris" 2>/dev/null; then
  /venv/bin/pip install --no-index --find-links $W --target .deps atheris >/dev/null 2>&1 || echo "setup: atheris not installable (C04 thorough fuzz tier will be skipped)"
fi
$PY -c "import hypothesis, sys; print('setup ok: hypothesis', hypothesis.__version__, 'python', sys.version.split()[0])"
